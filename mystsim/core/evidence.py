"""Evidence file writer (schema: /root/.vp/EVIDENCE.schema.json). Every number is measured."""

from __future__ import annotations

import json
import os

from .driver import VERIF, tree_digest


def write_evidence(property_id, tier, verif_seed, per_engine, wall_s, n_violations, workers):
    evaluations = sum(pe["total"]["evals"] for pe in per_engine)
    nontrivial = sum(len(pe["total"]["nontrivial"]) for pe in per_engine)
    runs = sum(pe["total"]["runs"] for pe in per_engine)
    samples = []
    engines_cov = {}
    assumptions = []
    rules = []
    real_vs_stub = {}
    for pe in per_engine:
        e, t = pe["engine"], pe["total"]
        for s in t["samples"][:3]:
            samples.append({"engine": e.name, **s})
        w = max(t["wall_s"], 1e-9)
        engines_cov[e.name] = {
            "runs": t["runs"],
            "runs_requested": pe["runs_requested"],
            "budget_s": pe["budget_s"],
            "stopped_by_deadline": t["stopped_by_deadline"],
            "evaluations": t["evals"],
            "distinct_nontrivial": len(t["nontrivial"]),
            "fault_free_runs": t["fault_free_runs"],
            "faulted_or_scheduled_runs": t["runs"] - t["fault_free_runs"],
            "runs_per_hour": int(t["runs"] / w * 3600),
            "evaluations_per_hour": int(t["evals"] / w * 3600),
            "simulated_time_s": round(t["sim_us"] / 1e6, 3),
            "simulated_time_note": "the code under test has no timers; simulated time only orders seam "
                                   "calls and stamps events — it is not a coverage measure here",
            "counters": _sorted(t["counters"]),
            "determinism_cross_check": pe["det"],
            "violations_reported": pe["reported"],
            "wall_s": round(t["wall_s"], 2),
        }
        rules.append(f"[{e.name}] {e.rule}")
        assumptions.extend(f"[{e.name}] {a}" for a in e.assumptions)
        real_vs_stub[e.name] = e.real_vs_stub
    if not samples:
        samples = [{"note": "no sample captured (all sampled runs ended in violations)"}]
    level = per_engine[0]["engine"].level
    doc = {
        "property_id": property_id,
        "tier": tier,
        "seed": verif_seed,
        "level": level,
        "coverage": {
            "evaluations": evaluations,
            "distinct_nontrivial": nontrivial,
            "rule": " || ".join(rules),
            "samples": samples,
            "exhaustive": False,
            "runs": runs,
            "seeds_per_hour": int(runs / max(wall_s, 1e-9) * 3600),
            "workers": workers,
            "engines": engines_cov,
            "real_vs_stub": real_vs_stub,
            "tree": tree_digest(),
        },
        "assumptions": assumptions,
        "wall_s": round(wall_s, 2),
        "violations": n_violations,
    }
    d = os.path.join(VERIF, "evidence")
    os.makedirs(d, exist_ok=True)
    path = os.path.join(d, f"{property_id}.json")
    tmp = path + ".tmp"
    with open(tmp, "w") as f:
        json.dump(doc, f, indent=1, ensure_ascii=True, default=str)
        f.write("\n")
    os.replace(tmp, path)
    return path


def _sorted(d):
    if isinstance(d, dict):
        return {k: _sorted(d[k]) for k in sorted(d)}
    return d
