"""Event log of one run: every seam call, scheduler decision, observation and verdict.

Lines are hashed in order.  No wall-clock time, PID, absolute path or object
address may enter a line; logging never draws from a PRNG and never reads a clock.
"""

from __future__ import annotations

import hashlib
import json


class EventLog:
    __slots__ = ("n", "_h", "lines", "keep", "clock")

    def __init__(self, keep: bool = False, clock=None):
        self.n = 0
        self._h = hashlib.sha256()
        self.lines: list[str] = []
        self.keep = keep
        self.clock = clock

    def add(self, kind: str, **fields) -> None:
        rec = {"n": self.n, "k": kind}
        if self.clock is not None:
            rec["t"] = self.clock.now_us()
        rec.update(fields)
        line = json.dumps(rec, sort_keys=True, ensure_ascii=True, default=_default)
        self._h.update(line.encode("ascii"))
        self._h.update(b"\n")
        self.n += 1
        if self.keep:
            self.lines.append(line)

    def digest(self) -> str:
        return self._h.hexdigest()


def _default(o):
    if isinstance(o, (bytes, bytearray)):
        return {"hex": bytes(o).hex()}
    if isinstance(o, (set, frozenset)):
        return sorted(o, key=repr)
    if isinstance(o, tuple):
        return list(o)
    return repr(o)
