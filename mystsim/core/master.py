"""Batch driver: pristine master -> W zygote workers -> (optionally) one forked process per run.

The master and the zygotes import everything and never execute code under test, so a
run process forked from a zygote starts from a state in which nothing was ever parsed.
Results come back as one pickle file per worker in a scratch directory that the batch
creates and removes itself.
"""

from __future__ import annotations

import os
import pickle
import shutil
import signal
import sys
import tempfile
import time
import traceback

from . import proc
from .rng import seed_for_run

_monotonic = time.monotonic


def scratch_base() -> str:
    base = "/dev/shm" if os.path.isdir("/dev/shm") and os.access("/dev/shm", os.W_OK) else None
    return tempfile.mkdtemp(prefix="mystsim-", dir=base)


class HarnessError(Exception):
    pass


def merge_counters(dst: dict, src: dict) -> None:
    for k, v in src.items():
        if isinstance(v, dict):
            merge_counters(dst.setdefault(k, {}), v)
        else:
            dst[k] = dst.get(k, 0) + v


def execute_run(engine, verif_seed: int, run_index: int, tier: str, want_plan: bool = False):
    """Plan and execute one run in *this* process. Returns the engine's result dict."""
    seed_run = seed_for_run(verif_seed, engine.name, run_index)
    if engine.fork_per_run and not os.environ.get("MYSTSIM_DEBUG"):
        # this is a forked run process: whatever the code under test prints (docutils' math2html, YAML
        # dumps, Sphinx status) must not reach the check's stdout, where only verdict lines belong
        devnull = os.open(os.devnull, os.O_WRONLY)
        os.dup2(devnull, 1)
        os.dup2(devnull, 2)
    plan = engine.plan(seed_run, tier)
    res = engine.execute(plan)
    res["run_index"] = run_index
    res["seed_run"] = seed_run
    concrete = res.pop("concrete_plan", None)  # engines whose plan is resolved against a recorded trace
    if res.get("violations") or want_plan:
        res["plan"] = concrete if (concrete is not None and res.get("violations")) else plan
    return res


def _one_run(engine, verif_seed, run_index, tier, want_plan):
    """Execute a run either inline or in its own forked process."""
    if not engine.fork_per_run:
        return execute_run(engine, verif_seed, run_index, tier, want_plan)
    status, val = proc.run_in_child(
        execute_run, (engine, verif_seed, run_index, tier, want_plan), timeout=engine.run_timeout_s
    )
    if status == "exc":
        raise HarnessError(
            f"run {run_index} of {engine.name} raised in harness code: {val[0]}: {val[1]}\n{val[2]}"
        )
    return val


def _worker_main(engine, verif_seed, tier, indices, deadline, outfile, keep_digests_upto, sample_every):
    agg = {
        "runs": 0,
        "evals": 0,
        "counters": {},
        "nontrivial": set(),
        "digests": {},
        "violations": [],
        "samples": [],
        "sim_us": 0,
        "fault_free_runs": 0,
        "errors": [],
        "stopped_by_deadline": False,
    }
    try:
        for idx in indices:
            if _monotonic() > deadline:
                agg["stopped_by_deadline"] = True
                break
            want_plan = len(agg["samples"]) < 2 and (idx % sample_every == 0)
            try:
                res = _one_run(engine, verif_seed, idx, tier, want_plan)
            except (proc.ChildFailure, HarnessError) as e:
                agg["errors"].append({"run_index": idx, "error": str(e)[:4000]})
                if len(agg["errors"]) > 5:
                    break
                continue
            agg["runs"] += 1
            agg["evals"] += res.get("evals", 0)
            agg["sim_us"] += res.get("sim_us", 0)
            merge_counters(agg["counters"], res.get("counters", {}))
            agg["nontrivial"].update(res.get("nontrivial", ()))
            if res.get("fault_free"):
                agg["fault_free_runs"] += 1
            if idx < keep_digests_upto:
                agg["digests"][idx] = res.get("digest")
            if res.get("violations"):
                if len(agg["violations"]) < 12:
                    agg["violations"].append(
                        {
                            "run_index": idx,
                            "seed_run": res["seed_run"],
                            "violations": res["violations"],
                            "plan": res.get("plan"),
                            "digest": res.get("digest"),
                        }
                    )
                else:
                    agg["counters"]["violations_not_kept"] = (
                        agg["counters"].get("violations_not_kept", 0) + 1
                    )
            elif want_plan and "plan" in res:
                agg["samples"].append(
                    {"run_index": idx, "seed_run": res["seed_run"], "sample": res.get("sample")}
                )
    except BaseException as e:  # noqa: BLE001
        agg["errors"].append({"run_index": -1, "error": f"worker crashed: {e!r}\n{traceback.format_exc()}"})
    tmp = outfile + ".tmp"
    with open(tmp, "wb") as f:
        pickle.dump(agg, f, protocol=4)
    os.replace(tmp, outfile)


def run_batch(
    engine,
    *,
    tier: str,
    verif_seed: int,
    runs: int,
    budget_s: float,
    workers: int,
    first_index: int = 0,
    keep_digests_upto: int = 0,
):
    """Run ``runs`` run indices (or until the budget ends) on ``workers`` zygotes."""
    t0 = _monotonic()
    deadline = t0 + budget_s
    scratch = scratch_base()
    os.environ["MYSTSIM_SCRATCH"] = scratch  # run processes create (and remove) their project dirs here
    pids = []
    try:
        sys.stdout.flush()
        sys.stderr.flush()
        for w in range(workers):
            indices = range(first_index + w, first_index + runs, workers)
            outfile = os.path.join(scratch, f"w{w}.pkl")
            pid = os.fork()
            if pid == 0:
                code = 0
                try:
                    _worker_main(
                        engine, verif_seed, tier, indices, deadline, outfile,
                        first_index + keep_digests_upto, max(1, runs // 8),
                    )
                except BaseException:  # noqa: BLE001
                    traceback.print_exc()
                    code = 3
                finally:
                    sys.stdout.flush()
                    sys.stderr.flush()
                    os._exit(code)
            pids.append(pid)
        hard_deadline = deadline + engine.run_timeout_s + 60
        pending = set(pids)
        while pending:
            for pid in list(pending):
                done, _status = os.waitpid(pid, os.WNOHANG)
                if done:
                    pending.discard(pid)
            if pending:
                if _monotonic() > hard_deadline:
                    for pid in pending:
                        try:
                            os.kill(pid, signal.SIGKILL)
                        except ProcessLookupError:
                            pass
                    for pid in pending:
                        os.waitpid(pid, 0)
                    raise HarnessError("worker(s) did not finish before the hard deadline")
                time.sleep(0.02)
        total = {
            "runs": 0,
            "evals": 0,
            "counters": {},
            "nontrivial": set(),
            "digests": {},
            "violations": [],
            "samples": [],
            "sim_us": 0,
            "fault_free_runs": 0,
            "errors": [],
            "stopped_by_deadline": False,
        }
        for w in range(workers):
            outfile = os.path.join(scratch, f"w{w}.pkl")
            if not os.path.exists(outfile):
                raise HarnessError(f"worker {w} died without a result file")
            with open(outfile, "rb") as f:
                agg = pickle.load(f)
            total["runs"] += agg["runs"]
            total["evals"] += agg["evals"]
            total["sim_us"] += agg["sim_us"]
            total["fault_free_runs"] += agg["fault_free_runs"]
            merge_counters(total["counters"], agg["counters"])
            total["nontrivial"].update(agg["nontrivial"])
            total["digests"].update(agg["digests"])
            total["violations"].extend(agg["violations"])
            total["samples"].extend(agg["samples"])
            total["errors"].extend(agg["errors"])
            total["stopped_by_deadline"] |= agg["stopped_by_deadline"]
        total["violations"].sort(key=lambda v: v["run_index"])
        total["samples"].sort(key=lambda v: v["run_index"])
        total["wall_s"] = _monotonic() - t0
        return total
    finally:
        os.environ.pop("MYSTSIM_SCRATCH", None)
        shutil.rmtree(scratch, ignore_errors=True)
