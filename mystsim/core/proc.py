"""Process utilities: run a function in a forked child, result over a pipe, watchdog.

Real processes give exactly the isolation the properties talk about (module globals
included).  *Which* child runs and *when* is always decided by the caller, never by
the OS: every helper here runs one child to completion before returning.
"""

from __future__ import annotations

import os
import pickle
import select
import signal
import sys
import time
import traceback

_monotonic = time.monotonic  # captured before any clock seam is installed


class ChildFailure(Exception):
    """The child did not deliver a result (harness-level problem, never a verdict)."""

    def __init__(self, kind: str, detail: str = ""):
        super().__init__(f"{kind}: {detail}")
        self.kind = kind  # "died" | "timeout" | "unpicklable"
        self.detail = detail


def run_in_child(fn, args=(), timeout: float = 120.0):
    """Fork, run ``fn(*args)`` in the child, return its result.

    An exception raised by ``fn`` is returned as ``("exc", (type, msg, tb))`` —
    it is data for the caller's oracle, not a harness failure.  A normal return is
    ``("ok", value)``.
    """
    r, w = os.pipe()
    sys.stdout.flush()
    sys.stderr.flush()
    pid = os.fork()
    if pid == 0:  # ---- child
        code = 0
        try:
            os.close(r)
            try:
                res = ("ok", fn(*args))
            except BaseException as e:  # noqa: BLE001 - everything is data here
                res = (
                    "exc",
                    (type(e).__name__, _safe_str(e), traceback.format_exc(limit=60)),
                )
            try:
                data = pickle.dumps(res, protocol=4)
            except BaseException as e:  # noqa: BLE001
                data = pickle.dumps(("unpicklable", repr(e)), protocol=4)
            _write_all(w, data)
            os.close(w)
        except BaseException:  # noqa: BLE001
            code = 3
        finally:
            os._exit(code)
    # ---- parent
    os.close(w)
    deadline = _monotonic() + timeout
    chunks = []
    timed_out = False
    try:
        while True:
            left = deadline - _monotonic()
            if left <= 0:
                timed_out = True
                break
            ready, _, _ = select.select([r], [], [], min(left, 5.0))
            if not ready:
                continue
            b = os.read(r, 1 << 16)
            if not b:
                break
            chunks.append(b)
    finally:
        os.close(r)
        if timed_out:
            try:
                os.kill(pid, signal.SIGKILL)
            except ProcessLookupError:
                pass
        _, status = os.waitpid(pid, 0)
    if timed_out:
        raise ChildFailure("timeout", f"no result within {timeout:.0f}s")
    data = b"".join(chunks)
    if not data:
        raise ChildFailure("died", f"wait status {status}")
    try:
        res = pickle.loads(data)
    except Exception as e:  # noqa: BLE001
        raise ChildFailure("died", f"truncated result ({e}); wait status {status}")
    if res[0] == "unpicklable":
        raise ChildFailure("unpicklable", res[1])
    return res


def _write_all(fd: int, data: bytes) -> None:
    view = memoryview(data)
    while view:
        n = os.write(fd, view)
        view = view[n:]


def _safe_str(e: BaseException) -> str:
    try:
        return str(e)
    except BaseException:  # noqa: BLE001
        return "<unprintable>"


def normalised_recursion(headroom: int = 1000):
    """Decorator: give the wrapped call exactly ``headroom`` Python frames of recursion budget,
    whatever the depth of the calling stack.  Without it a RecursionError in the code under test
    would strike at a call-path-dependent point (forked children inherit the parent's stack depth),
    which breaks replay.  1000 is CPython's default limit, i.e. what a user's top-level call gets."""
    import functools

    def deco(fn):
        @functools.wraps(fn)
        def wrapper(*a, **k):
            depth = 0
            f = sys._getframe()
            while f is not None:
                depth += 1
                f = f.f_back
            old = sys.getrecursionlimit()
            sys.setrecursionlimit(depth + headroom)
            try:
                return fn(*a, **k)
            finally:
                sys.setrecursionlimit(old)

        return wrapper

    return deco
