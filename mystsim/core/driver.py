"""Command driver shared by all engines: batch, determinism cross-check, minimisation,
replay files, known-findings matching, evidence, exit codes.

Exit codes: 0 property held on everything explored; 1 violation (a line
``VIOLATION property=<id> replay=<path>`` is printed); 2 harness error.
"""

from __future__ import annotations

import argparse
import copy
import hashlib
import json
import os
import re
import subprocess
import sys
import time

from . import master, proc
from .rng import seed_for_run

VERIF = os.path.dirname(os.path.dirname(os.path.dirname(os.path.abspath(__file__))))
REPO = os.environ.get("MYSTSIM_REPO", "/repo")
_monotonic = time.monotonic

PINNED_ENV = {
    "PYTHONHASHSEED": "0",
    "NO_COLOR": "1",
    "LC_ALL": "C.UTF-8",
    "LANG": "C.UTF-8",
    "TZ": "UTC",
    "PYTHONDONTWRITEBYTECODE": "1",
    "PYTHONWARNINGS": "ignore",
}


def ensure_pinned_env() -> None:
    """Re-exec once with the pinned environment (set iteration order, locale, tz)."""
    if os.environ.get("MYSTSIM_PINNED") == "1":
        return
    env = dict(os.environ)
    want_hash = os.environ.get("MYSTSIM_HASHSEED")
    env.update(PINNED_ENV)
    if want_hash is not None:
        env["PYTHONHASHSEED"] = want_hash
    env["MYSTSIM_PINNED"] = "1"
    os.execve(sys.executable, [sys.executable, *sys.argv], env)


def setup_paths() -> None:
    if REPO not in sys.path[:1]:
        sys.path.insert(0, REPO)
    if VERIF not in sys.path:
        sys.path.insert(1, VERIF)


def assert_repo_tree() -> None:
    import myst_parser

    f = os.path.realpath(myst_parser.__file__)
    if not f.startswith(os.path.realpath(REPO) + os.sep):
        raise master.HarnessError(f"myst_parser imported from {f}, not from {REPO}")


def tree_digest() -> dict:
    h = hashlib.sha256()
    root = os.path.join(REPO, "myst_parser")
    for dirpath, dirnames, filenames in os.walk(root):
        dirnames.sort()
        if "__pycache__" in dirnames:
            dirnames.remove("__pycache__")
        for fn in sorted(filenames):
            if fn.endswith(".py"):
                p = os.path.join(dirpath, fn)
                h.update(os.path.relpath(p, root).encode())
                with open(p, "rb") as f:
                    h.update(f.read())
    try:
        rev = subprocess.run(
            ["git", "-C", REPO, "rev-parse", "HEAD"], capture_output=True, text=True, timeout=20
        ).stdout.strip()
    except Exception:  # noqa: BLE001
        rev = ""
    return {"git": rev, "myst_parser_sha256": h.hexdigest()}


# ---------------------------------------------------------------- known findings


def load_known() -> list[dict]:
    path = os.path.join(VERIF, "known_findings.json")
    if not os.path.exists(path):
        return []
    with open(path) as f:
        return json.load(f).get("entries", [])


def match_known(known: list[dict], property_id: str, signature: str):
    for ent in known:
        if ent.get("status") != "known" or ent.get("property") != property_id:
            continue
        if re.fullmatch(ent["signature"], signature):
            return ent
    return None


# ---------------------------------------------------------------- minimisation


def _execute_quiet(engine, plan):
    if not os.environ.get("MYSTSIM_DEBUG"):
        devnull = os.open(os.devnull, os.O_WRONLY)
        os.dup2(devnull, 1)
        os.dup2(devnull, 2)
    return engine.execute(plan)


def run_plan_in_child(engine, plan, timeout=None):
    status, val = proc.run_in_child(_execute_quiet, (engine, plan), timeout=timeout or engine.run_timeout_s)
    if status == "exc":
        raise master.HarnessError(f"engine.execute raised: {val[0]}: {val[1]}\n{val[2]}")
    return val


def first_signature(res) -> str | None:
    v = res.get("violations") or []
    return v[0]["signature"] if v else None


def minimise(engine, plan, signature: str, budget_s: float = 60.0, max_candidates: int = 400):
    """Greedy delta debugging over the engine's shrink candidates.

    A candidate is kept only if the *same signature* fails; each candidate costs one
    forked execution from the pristine master.
    """
    t_end = _monotonic() + budget_s
    tried = 0
    improved = True
    while improved and _monotonic() < t_end and tried < max_candidates:
        improved = False
        for cand in engine.shrink(plan):
            if _monotonic() > t_end or tried >= max_candidates:
                break
            tried += 1
            try:
                res = run_plan_in_child(engine, cand)
            except (proc.ChildFailure, master.HarnessError):
                continue
            if first_signature(res) == signature:
                plan = cand
                improved = True
                break
    return plan, tried


# ---------------------------------------------------------------- replay


def write_replay(engine, tier, verif_seed, vio, plan, res, minimised_from, tried) -> str:
    d = os.environ.get("MYSTSIM_REPLAY_DIR") or os.path.join(VERIF, "replays")
    os.makedirs(d, exist_ok=True)
    v0 = res["violations"][0]
    doc = {
        "format": 1,
        "property": engine.property_id,
        "engine": engine.name,
        "tier": tier,
        "verif_seed": verif_seed,
        "run_index": vio["run_index"],
        "seed_run": vio["seed_run"],
        "tree": tree_digest(),
        "env": {"PYTHONHASHSEED": os.environ.get("PYTHONHASHSEED"), "python": sys.version.split()[0]},
        "plan": plan,
        "violation": v0,
        "minimised_from": minimised_from,
        "minimiser_candidates_tried": tried,
        "event_log_sha256": res.get("digest"),
    }
    path = os.path.join(d, f"{engine.property_id}-{engine.name}-{vio['seed_run']}.json")
    with open(path, "w") as f:
        json.dump(doc, f, indent=1, sort_keys=True, ensure_ascii=True)
        f.write("\n")
    return path


def do_replay(engine, path: str) -> int:
    with open(path) as f:
        doc = json.load(f)
    if doc.get("engine") != engine.name:
        print(f"HARNESS-ERROR: replay file is for engine {doc.get('engine')}, not {engine.name}")
        return 2
    plan = doc["plan"]
    res = run_plan_in_child(engine, plan)
    sig = first_signature(res)
    want = doc["violation"]["signature"]
    if sig is None:
        print(f"NOT-REPRODUCED: property={doc['property']} the recorded plan passes on this tree "
              f"(recorded signature: {want})")
        return 0
    exact = res.get("digest") == doc.get("event_log_sha256")
    print(json.dumps({"signature": sig, "recorded_signature": want, "same_signature": sig == want,
                      "event_log_identical": exact, "violation": res["violations"][0]}, indent=1)[:6000])
    print(f"VIOLATION property={doc['property']} replay={path}")
    return 1


# ---------------------------------------------------------------- determinism cross-check


def cross_check_determinism(engine, tier, verif_seed, digests: dict, workers: int, first_index: int = 0):
    """Re-run the runs whose digests were kept, on a different worker count.

    Returns (n_checked, mismatches).
    """
    if not digests:
        return 0, []
    idxs = sorted(digests)
    n = idxs[-1] - first_index + 1
    again = master.run_batch(
        engine, tier=tier, verif_seed=verif_seed, runs=n, budget_s=600, workers=workers,
        first_index=first_index, keep_digests_upto=n,
    )
    if again["errors"]:
        raise master.HarnessError(f"determinism cross-check: {again['errors'][0]['error']}")
    mismatches = [i for i in idxs if again["digests"].get(i) != digests[i]]
    return len(idxs), mismatches


# ---------------------------------------------------------------- main entry


def base_argparser(prog: str) -> argparse.ArgumentParser:
    ap = argparse.ArgumentParser(prog=prog)
    ap.add_argument("--tier", choices=["quick", "thorough"], default=os.environ.get("VERIF_TIER") or "quick")
    ap.add_argument("--seed", type=int, default=None)
    ap.add_argument("--runs", type=int, default=None)
    ap.add_argument("--budget-s", type=float, default=None)
    ap.add_argument("--workers", type=int, default=None)
    ap.add_argument("--replay", default=None)
    ap.add_argument("--first-index", type=int, default=0)
    ap.add_argument("--no-evidence", action="store_true")
    ap.add_argument("--no-minimise", action="store_true")
    ap.add_argument("--dump-digests", default=None, help="write {run_index: digest} JSON here (self-test)")
    return ap


def resolve_seed(args) -> int:
    if args.seed is not None:
        return args.seed
    s = os.environ.get("VERIF_SEED")
    try:
        return int(s) if s not in (None, "") else 0
    except ValueError:
        return int.from_bytes(hashlib.sha256(s.encode()).digest()[:6], "big")


def run_engines(property_id: str, engines: list, args) -> int:
    """Run one or several engines that together decide one property."""
    t0 = _monotonic()
    tier = args.tier
    verif_seed = resolve_seed(args)
    workers = args.workers or min(16, os.cpu_count() or 1)
    known = load_known()
    print(f"SEED verif_seed={verif_seed} tier={tier} property={property_id} "
          f"engines={[e.name for e in engines]} workers={workers}")
    for e in engines:
        e.prepare()
    assert_repo_tree()

    if args.replay:
        with open(args.replay) as f:
            name = json.load(f).get("engine")
        for e in engines:
            if e.name == name:
                return do_replay(e, args.replay)
        print(f"HARNESS-ERROR: no engine {name} for this check")
        return 2

    exit_code = 0
    per_engine = []
    printed_known = set()
    n_violations = 0
    for engine in engines:
        runs = args.runs if args.runs is not None else engine.default_runs[tier]
        budget = args.budget_s if args.budget_s is not None else float(
            os.environ.get("VERIF_BUDGET_S") or engine.default_budget_s[tier])
        if len(engines) > 1 and args.budget_s is None and not os.environ.get("VERIF_BUDGET_S"):
            pass
        kd = engine.determinism_sample[tier]
        total = master.run_batch(
            engine, tier=tier, verif_seed=verif_seed, runs=runs, budget_s=budget, workers=workers,
            first_index=args.first_index, keep_digests_upto=(runs if args.dump_digests else kd),
        )
        if total["errors"]:
            for err in total["errors"][:3]:
                print(f"HARNESS-ERROR: engine={engine.name} run={err['run_index']} {err['error']}")
            return 2
        if total["runs"] == 0:
            print(f"HARNESS-ERROR: engine={engine.name} executed no run")
            return 2
        if args.dump_digests:
            with open(args.dump_digests + "." + engine.name, "w") as f:
                json.dump({str(k): v for k, v in sorted(total["digests"].items())}, f)

        # determinism cross-check on another worker count
        det = {"checked": 0, "mismatches": []}
        if kd and not args.dump_digests:
            sample = {i: d for i, d in total["digests"].items() if i < args.first_index + kd}
            other_w = 3 if workers != 3 else 2
            n, mm = cross_check_determinism(engine, tier, verif_seed, sample, other_w, args.first_index)
            det = {"checked": n, "mismatches": mm, "worker_counts": [workers, other_w]}
            if mm:
                print(f"HARNESS-ERROR: engine={engine.name} event-log digests differ between two "
                      f"executions of the same seed for run indices {mm[:10]}")
                return 2

        # violations: group by signature, minimise the first of each, write replays
        by_sig: dict[str, list] = {}
        for vio in total["violations"]:
            by_sig.setdefault(vio["violations"][0]["signature"], []).append(vio)
        reported = []
        for sig, vios in sorted(by_sig.items()):
            ent = match_known(known, property_id, sig)
            if ent is not None:
                key = (ent["signature"], ent.get("what"))
                if key not in printed_known:
                    printed_known.add(key)
                    print(f"KNOWN-FINDING: property={property_id} {ent.get('what', sig)} "
                          f"[signature {sig}; {len(vios)} run(s)]")
                reported.append({"signature": sig, "runs": len(vios), "known": True})
                continue
            vio = vios[0]
            plan = vio["plan"]
            orig_size = engine.plan_size(plan)
            tried = 0
            if not args.no_minimise and len(reported) < 4:
                try:
                    plan, tried = minimise(engine, plan, sig, budget_s=engine.minimise_budget_s)
                except Exception as e:  # noqa: BLE001
                    print(f"NOTE: minimisation failed ({e!r}); reporting the un-minimised plan")
                    plan = vio["plan"]
            # fresh-process confirmation of the (minimised) plan
            res = run_plan_in_child(engine, plan)
            if first_signature(res) != sig:
                res2 = run_plan_in_child(engine, vio["plan"])
                if first_signature(res2) != sig:
                    print(f"HARNESS-ERROR: engine={engine.name} violation {sig} of run "
                          f"{vio['run_index']} did not reproduce in a fresh process")
                    return 2
                plan, res = vio["plan"], res2
            path = write_replay(engine, tier, verif_seed, vio, plan, res, orig_size, tried)
            n_violations += len(vios)
            exit_code = 1
            v0 = res["violations"][0]
            print(f"--- violation engine={engine.name} invariant={v0['invariant']} signature={sig} "
                  f"runs={len(vios)} first_run_index={vio['run_index']} seed_run={vio['seed_run']}")
            print(json.dumps(v0.get("detail"), indent=1, ensure_ascii=True, default=str)[:3000])
            print(f"VIOLATION property={property_id} replay={path}")
            reported.append({"signature": sig, "runs": len(vios), "known": False, "replay": path})
        per_engine.append({"engine": engine, "total": total, "det": det, "reported": reported,
                           "runs_requested": runs, "budget_s": budget})

    wall = _monotonic() - t0
    if not args.no_evidence:
        from .evidence import write_evidence

        write_evidence(property_id, tier, verif_seed, per_engine, wall, n_violations, workers)
    for pe in per_engine:
        t = pe["total"]
        print(f"SUMMARY engine={pe['engine'].name} runs={t['runs']} evaluations={t['evals']} "
              f"distinct_nontrivial={len(t['nontrivial'])} violations={len(t['violations'])} "
              f"determinism_checked={pe['det']['checked']} wall_s={t['wall_s']:.1f}")
    return exit_code
