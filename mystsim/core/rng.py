"""One integer decides everything: seed derivation and purpose-split sub-streams."""

from __future__ import annotations

import hashlib
import random


def H(*parts) -> int:
    """Stable 63-bit hash of a tuple of ints/strings (independent of PYTHONHASHSEED)."""
    h = hashlib.sha256(repr(tuple(parts)).encode("utf-8")).digest()
    return int.from_bytes(h[:8], "big") >> 1


def stream(seed: int, *purpose) -> random.Random:
    """A PRNG sub-stream; adding a draw in one stream never shifts another."""
    return random.Random(H(seed, *purpose))


def seed_for_run(verif_seed: int, engine: str, run_index: int) -> int:
    return H("run", verif_seed, engine, run_index)


def sha(data) -> str:
    if isinstance(data, str):
        data = data.encode("utf-8", "surrogatepass")
    return hashlib.sha256(data).hexdigest()
