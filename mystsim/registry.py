"""Maps check names to engines."""

from __future__ import annotations

from .core import driver


def engines_for(what: str):
    if what == "c18":
        from .engines import c18_stream

        return "C18", [c18_stream.Engine()]
    if what == "c15":
        from .engines import c15_history, c15_parallel

        return "C15", [c15_history.Engine(), c15_parallel.Engine()]
    if what == "c15a":
        from .engines import c15_history

        return "C15", [c15_history.Engine()]
    if what == "c15b":
        from .engines import c15_parallel

        return "C15", [c15_parallel.Engine()]
    if what == "c01":
        from .engines import c01_faults

        return "C01", [c01_faults.Engine()]
    raise SystemExit(f"unknown check {what!r}")


def dispatch(what: str, argv: list[str]) -> int:
    if what == "setup":
        import docutils
        import sphinx

        import myst_parser

        driver.assert_repo_tree()
        print(f"setup ok: myst_parser {myst_parser.__version__} from {myst_parser.__file__}; "
              f"docutils {docutils.__version__}; sphinx {sphinx.__version__}")
        return 0
    if what == "selftest":
        from .selftest import main as st_main

        return st_main.main(argv)
    prop, engines = engines_for(what)
    args = driver.base_argparser(f"check {what}").parse_args(argv)
    if what in ("c15a", "c15b"):
        args.no_evidence = True
    return driver.run_engines(prop, engines, args)
