"""Self-tests of the machinery (not registered as property checks).

  bin/check selftest determinism [--runs N]      same seeds twice: other worker count, other PYTHONHASHSEED in a
                                                 fresh interpreter; event-log digests must be identical
  bin/check selftest seeded [id ...]             sensitivity: every change under /verif/seeded (made by independent
                                                 sub-agents) must be reported by its property's quick check
  bin/check selftest mutants [id ...]            the same for the hand-written mutants under mystsim/mutants
  bin/check selftest benign [id ...]             specificity: property-preserving changes under /verif/benign must stay quiet
  bin/check selftest replays                     every recorded finding reproduces (same signature) on the tree just
                                                 before its repair, and passes on the current tree

A seeded change / mutant is applied to a scratch copy of /repo's package outside /repo and /verif (tmpfs), the
check runs with MYSTSIM_REPO pointing at the copy, and the copy is removed. /repo is never touched.
Exit 0: all as expected; 1: a change was missed / digests differ; 2: harness problem.
"""

from __future__ import annotations

import json
import os
import shutil
import subprocess
import sys
import tempfile

from ..core.driver import REPO, VERIF

CHECK = os.path.join(VERIF, "bin", "check")
PROP_CMD = {"C01": "c01", "C15": "c15", "C18": "c18"}


def _scratch() -> str:
    base = "/dev/shm" if os.path.isdir("/dev/shm") and os.access("/dev/shm", os.W_OK) else None
    return tempfile.mkdtemp(prefix="mystsim-selftest-", dir=base)


def _run_check(cmd: str, extra: list[str], env_extra: dict, timeout: int = 3000):
    env = dict(os.environ)
    env.pop("MYSTSIM_PINNED", None)
    env.update(env_extra)
    p = subprocess.run([sys.executable, CHECK, cmd, *extra], env=env, capture_output=True, text=True, timeout=timeout)
    return p.returncode, p.stdout + p.stderr


def determinism(argv: list[str]) -> int:
    runs = int(argv[argv.index("--runs") + 1]) if "--runs" in argv else None
    only = [a for a in argv if a in PROP_CMD.values()]
    tmp = _scratch()
    bad = 0
    try:
        for cmd in only or ["c18", "c15", "c01"]:
            n = runs or {"c18": 3000, "c15": 64, "c01": 64}[cmd]
            files = {}
            for tag, workers, hs in (("a", 16, "0"), ("b", 5, "0"), ("c", 11, "1"), ("d", 16, "12345")):
                out = os.path.join(tmp, f"{cmd}-{tag}")
                rc, text = _run_check(cmd, ["--tier", "quick", "--runs", str(n), "--workers", str(workers),
                                            "--budget-s", "3000", "--no-evidence", "--no-minimise",
                                            "--dump-digests", out], {"MYSTSIM_HASHSEED": hs})
                if rc not in (0, 1):
                    print(f"HARNESS-ERROR: {cmd} workers={workers} PYTHONHASHSEED={hs} exit {rc}\n{text[-2000:]}")
                    return 2
                files[tag] = {f: json.load(open(os.path.join(tmp, f))) for f in sorted(os.listdir(tmp))
                              if f.startswith(f"{cmd}-{tag}.")}
            base = files["a"]
            for tag in ("b", "c", "d"):
                for f, dig in files[tag].items():
                    ref = base[f.replace(f"-{tag}.", "-a.")]
                    diff = [k for k in ref if ref[k] != dig.get(k)]
                    eng = f.split(".", 1)[1]
                    print(f"determinism {cmd}/{eng}: {len(ref)} seeds, variant {tag} "
                          f"({'workers=5' if tag == 'b' else 'workers=11 PYTHONHASHSEED=1' if tag == 'c' else 'PYTHONHASHSEED=12345'}): "
                          f"{'identical' if not diff else 'DIFFERENT for run indices ' + str(diff[:12])}")
                    bad += bool(diff)
    finally:
        shutil.rmtree(tmp, ignore_errors=True)
    return 1 if bad else 0


def _apply_and_check(sid: str, d: str, prop: str, patch: str, tier: str = "quick"):
    scratch = _scratch()
    try:
        shutil.copytree(os.path.join(REPO, "myst_parser"), os.path.join(scratch, "myst_parser"),
                        ignore=shutil.ignore_patterns("__pycache__"))
        p = subprocess.run(["git", "apply", "--include=myst_parser/*", patch], cwd=scratch, capture_output=True,
                           text=True)
        if p.returncode != 0:
            return "apply-failed", p.stderr[-500:]
        rc, text = _run_check(PROP_CMD[prop], ["--tier", tier, "--no-evidence", "--no-minimise"],
                              {"MYSTSIM_REPO": scratch, "MYSTSIM_REPLAY_DIR": os.path.join(scratch, "replays")})
        sigs = sorted({ln.split("signature=", 1)[1].split(" runs=")[0] for ln in text.splitlines()
                       if ln.startswith("--- violation") and "signature=" in ln})
        if rc == 1 and f"VIOLATION property={prop}" in text:
            return "caught", sigs[:4]
        if rc == 0:
            return "MISSED", []
        return "harness-error", text[-1500:]
    finally:
        shutil.rmtree(scratch, ignore_errors=True)


def benign(argv: list[str]) -> int:
    """Specificity: property-preserving changes (made by independent sub-agents) must NOT be reported."""
    root = os.path.join(VERIF, "benign")
    ids = [a for a in argv if not a.startswith("-")] or sorted(
        x for x in os.listdir(root) if os.path.isdir(os.path.join(root, x)))
    alarms = errors = 0
    for sid in ids:
        d = os.path.join(root, sid)
        meta = json.load(open(os.path.join(d, "meta.json")))
        status, info = _apply_and_check(sid, d, meta["property"], os.path.join(d, "patch.diff"))
        verdict = {"MISSED": "quiet (as it must be)", "caught": "FALSE ALARM"}.get(status, status)
        print(f"{sid}: {verdict} {json.dumps(info)[:400] if status != 'MISSED' else ''}", flush=True)
        alarms += status == "caught"
        errors += status in ("apply-failed", "harness-error")
    print(f"specificity: {len(ids)} property-preserving changes, {alarms} false alarms, {errors} errors")
    return 2 if errors else (1 if alarms else 0)


def _sensitivity(root: str, argv: list[str]) -> int:
    ids = [a for a in argv if not a.startswith("-")] or sorted(
        x for x in os.listdir(root) if os.path.isdir(os.path.join(root, x)))
    tier = "thorough" if "--thorough" in argv else "quick"
    missed = errors = 0
    for sid in ids:
        d = os.path.join(root, sid)
        meta = json.load(open(os.path.join(d, "meta.json")))
        status, info = _apply_and_check(sid, d, meta["property"], os.path.join(d, "patch.diff"), tier)
        print(f"{sid}: {status} {json.dumps(info)[:600]}", flush=True)
        missed += status == "MISSED"
        errors += status in ("apply-failed", "harness-error")
    print(f"sensitivity: {len(ids)} changes, {len(ids) - missed - errors} caught, {missed} missed, {errors} errors")
    return 2 if errors else (1 if missed else 0)


def replays(argv: list[str]) -> int:
    """Every recorded finding must (a) reproduce, with the recorded signature, on the tree just before its repair
    and (b) pass on the current tree: a fixed finding suppresses nothing and would be reported again."""
    with open(os.path.join(VERIF, "known_findings.json")) as f:
        entries = json.load(f)["entries"]
    bad = 0
    for ent in entries:
        files = ent.get("replays") or [ent["replay"]]
        commit = ent.get("commit")
        for rel in files:
            path = os.path.join(VERIF, rel)
            cmd = PROP_CMD[ent["property"]]
            rc_now, text_now = _run_check(cmd, ["--replay", path], {})
            if ent.get("status") == "known":  # not repaired: the recorded plan must still fail the recorded way
                good = rc_now == 1 and '"same_signature": true' in text_now
                bad += not good
                print(f"{os.path.basename(rel)}: known finding (not repaired): "
                      f"{'still reproduces with the recorded signature' if good else 'DOES NOT REPRODUCE ANY MORE'}  "
                      f"[{'ok' if good else 'BAD'}]", flush=True)
                continue
            ok_now = rc_now == 0 and "NOT-REPRODUCED" in text_now
            ok_before = None
            if commit:
                scratch = _scratch()
                try:
                    ar = subprocess.run(["git", "-C", REPO, "archive", commit + "^", "myst_parser"], capture_output=True)
                    if ar.returncode != 0:
                        print(f"HARNESS-ERROR: git archive {commit}^ failed: {ar.stderr.decode()[-300:]}")
                        return 2
                    subprocess.run(["tar", "-x", "-C", scratch], input=ar.stdout, check=True)
                    rc_b, text_b = _run_check(cmd, ["--replay", path], {"MYSTSIM_REPO": scratch})
                    ok_before = rc_b == 1 and '"same_signature": true' in text_b
                finally:
                    shutil.rmtree(scratch, ignore_errors=True)
            status = ("ok" if ok_now and ok_before is not False else "BAD")
            bad += status == "BAD"
            print(f"{os.path.basename(rel)}: before {commit[:7] if commit else '-'}: "
                  f"{'reproduces with the recorded signature' if ok_before else 'DOES NOT REPRODUCE' if ok_before is False else 'n/a'}; "
                  f"current tree: {'passes' if ok_now else 'DOES NOT PASS'}  [{status}]", flush=True)
    return 1 if bad else 0


def main(argv: list[str]) -> int:
    if not argv:
        print(__doc__)
        return 2
    what, rest = argv[0], argv[1:]
    if what == "determinism":
        return determinism(rest)
    if what == "benign":
        return benign(rest)
    if what == "replays":
        return replays(rest)
    if what == "seeded":
        return _sensitivity(os.path.join(VERIF, "seeded"), rest)
    if what == "mutants":
        return _sensitivity(os.path.join(VERIF, "mystsim", "mutants"), rest)
    print(__doc__)
    return 2
