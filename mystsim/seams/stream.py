"""The byte-stream seam: a stream whose every read is decided by the simulator.

``read(n)`` returns between 1 and ``n`` bytes (never ``b""`` before EOF — that would be
illegal by the stream contract), never spanning a *cut*; the plan may make the j-th read
raise, and the data may have been truncated (premature EOF) or have one byte flipped
before the stream is created.
"""

from __future__ import annotations

import bisect
import errno


class InjectedReadError(Exception):
    """Marker mixin so that oracles can recognise their own faults."""


class SimEIO(OSError, InjectedReadError):
    pass


class SimTimeout(TimeoutError, InjectedReadError):
    pass


class SimReset(ConnectionResetError, InjectedReadError):
    pass


def make_error(kind: str) -> BaseException:
    if kind == "EIO":
        return SimEIO(errno.EIO, "Input/output error (injected)")
    if kind == "timeout":
        return SimTimeout("timed out (injected)")
    if kind == "reset":
        return SimReset(errno.ECONNRESET, "Connection reset by peer (injected)")
    if kind == "incomplete_read":
        import http.client

        e = http.client.IncompleteRead(b"", 1024)  # an HTTPException: neither OSError nor ValueError
        e.injected = True  # type: ignore[attr-defined]
        return e
    raise ValueError(kind)


class SimStream:
    """Readable binary stream + context manager, driven by a cut-set and a fault plan."""

    def __init__(self, data: bytes, cuts=(), fail_at_read: int | None = None, fail_kind: str = "EIO",
                 log=None, clock=None, name: str = "stream"):
        self.data = data
        self.cuts = sorted(set(c for c in cuts if 0 < c < len(data)))
        self.pos = 0
        self.n_reads = 0
        self.fail_at_read = fail_at_read
        self.fail_at_pos: int | None = None  # fail the first read issued once >= this many bytes were delivered
        self.fail_kind = fail_kind
        self.fault_delivered = False
        self.closed = False
        self.sizes: list[int] = []
        self.reads_after_eof = 0
        self.log = log
        self.clock = clock
        self.name = name

    # -- stream protocol
    def read(self, n: int = -1) -> bytes:
        if self.closed:
            raise ValueError("I/O operation on closed file.")
        j = self.n_reads
        self.n_reads += 1
        if self.clock is not None:
            self.clock.advance_us(37)
        if (self.fail_at_read is not None and j == self.fail_at_read) or (
            self.fail_at_pos is not None and not self.fault_delivered and self.pos >= self.fail_at_pos
        ):
            self.fault_delivered = True
            cb = getattr(self, "on_fault", None)
            if cb is not None:
                cb()
            if self.log is not None:
                self.log.add("seam", site=self.name, op="read", req=n, outcome="raise:" + self.fail_kind)
            raise make_error(self.fail_kind)
        size = len(self.data)
        if self.pos >= size:
            self.reads_after_eof += 1
            if self.log is not None:
                self.log.add("seam", site=self.name, op="read", req=n, outcome=0)
            return b""
        end = size if (n is None or n < 0) else min(size, self.pos + n)
        i = bisect.bisect_right(self.cuts, self.pos)
        if i < len(self.cuts) and self.cuts[i] < end:
            end = self.cuts[i]
        chunk = self.data[self.pos:end]
        self.pos = end
        self.sizes.append(len(chunk))
        if self.log is not None:
            self.log.add("seam", site=self.name, op="read", req=n, outcome=len(chunk))
        return chunk

    def close(self) -> None:
        self.closed = True

    def __enter__(self):
        return self

    def __exit__(self, *exc):
        self.close()
        return False

    # a few attributes urllib responses / files have, so that a caller touching them sees sane values
    def readable(self) -> bool:
        return True

    status = 200


def apply_data_fault(data: bytes, fault: dict | None) -> bytes:
    """Premature EOF (torn file / dropped connection) or one flipped byte."""
    if not fault:
        return data
    if fault["kind"] == "eof":
        return data[: fault["at_byte"]]
    if fault["kind"] == "flip":
        o = fault["at_byte"]
        if 0 <= o < len(data):
            return data[:o] + bytes([data[o] ^ (fault.get("xor") or 1)]) + data[o + 1:]
    return data
