"""Network seam: ``myst_parser.inventory.urlopen`` (the name bound in that module) replaced by a fake.

There is no network in the sandbox; this stub is the only "remote".  It maps URL -> bytes (or 404)
and consults the fault plan for the k-th faultable call (the counter is shared with the FS seam so
that one index space names every faultable I/O call of a pass).

Fault kinds (urlopen): refused (URLError), http404, http500 (HTTPError), timeout (TimeoutError: simulated
latency exceeds the caller's timeout - or an idle timeout when the caller passed none), reset (read raises
ConnectionResetError once ``frac`` of the body was delivered), truncated (body cut at ``frac``), garbage.
"""

from __future__ import annotations

import errno
import io
import urllib.error

from .stream import SimStream

NET_KINDS = ["refused", "http404", "http500", "timeout", "reset", "truncated", "garbage", "bad_status",
             "incomplete_read"]


class NetSeam:
    def __init__(self, fs_seam, urls: dict, faults: list[dict] | None = None, log=None, clock=None):
        self.fs = fs_seam  # shares the faultable-call counter, trace and delivery list
        self.urls = urls
        self.log = log
        self.clock = clock
        self._orig = None

    def _urlopen(self, url, data=None, timeout=None, **kw):
        url_s = url if isinstance(url, str) else getattr(url, "full_url", str(url))
        idx, fault, rec = self.fs._decide("urlopen", "url:" + url_s, "inventory.py:fetch_inventory")
        rec["path"] = "url"
        if self.clock is not None:
            self.clock.advance_us(20_000)  # simulated round trip
        body = self.urls.get(url_s)
        kind = fault["kind"] if fault else None
        if kind == "refused":
            self.fs._note(rec, "inject:refused")
            self.fs._deliver(rec, fault, "raise-at-urlopen")
            raise urllib.error.URLError(ConnectionRefusedError(errno.ECONNREFUSED, "Connection refused (injected)"))
        if kind in ("http404", "http500"):
            code = int(kind[4:])
            self.fs._note(rec, "inject:" + kind)
            self.fs._deliver(rec, fault, "raise-at-urlopen")
            raise urllib.error.HTTPError(url_s, code, "injected", {}, io.BytesIO(b""))  # type: ignore[arg-type]
        if kind == "bad_status":  # http.client.HTTPException: neither an OSError nor a ValueError
            import http.client

            self.fs._note(rec, "inject:bad_status")
            self.fs._deliver(rec, fault, "raise-at-urlopen")
            raise http.client.BadStatusLine("\x15\x03\x01 (injected)")
        if kind == "timeout":
            if self.clock is not None:
                self.clock.advance_us(int(1e6 * (timeout or 3600)))
            self.fs._note(rec, "inject:timeout")
            self.fs._deliver(rec, fault, "raise-at-urlopen")
            raise TimeoutError("timed out (injected)")
        if body is None:
            self.fs._note(rec, "err:HTTPError404")
            raise urllib.error.HTTPError(url_s, 404, "Not Found", {}, io.BytesIO(b""))  # type: ignore[arg-type]
        fail_at = None
        if kind == "reset":
            fail_at = min(len(body), int(len(body) * float(fault.get("frac", 0.5))))
        elif kind == "incomplete_read":
            fail_at = min(len(body), int(len(body) * float(fault.get("frac", 0.5))))
        elif kind == "truncated":
            body = body[: int(len(body) * float(fault.get("frac", 0.5)))]
            self.fs._deliver(rec, fault, "content-torn")
        elif kind == "garbage":
            body = b"<html><body>502 Bad Gateway</body></html>\n" * 3
            self.fs._deliver(rec, fault, "content-garbage")
        elif kind is not None:  # a kind that does not apply to urlopen(): no fault
            kind = None
        self.fs._note(rec, "ok" if kind is None else f"inject:{kind}")
        s = SimStream(body, cuts=() if fail_at is None else (fail_at,), log=None, clock=self.clock, name="urlopen")
        if fail_at is not None:
            s.fail_at_pos = fail_at
            s.fail_kind = "incomplete_read" if kind == "incomplete_read" else "reset"
            # delivered only if a read is actually issued at or after that position
            s.on_fault = lambda: self.fs._deliver(rec, fault, "raise-at-read")
        return s

    def install(self):
        # the seam is urlopen, however the module under test refers to it (bound name or urllib.request.urlopen)
        import urllib.request

        import myst_parser.inventory as inv

        self._orig = (inv.__dict__.get("urlopen"), urllib.request.urlopen)
        if "urlopen" in inv.__dict__:
            inv.urlopen = self._urlopen
        urllib.request.urlopen = self._urlopen

    def uninstall(self):
        import urllib.request

        import myst_parser.inventory as inv

        if self._orig is not None:
            if self._orig[0] is not None:
                inv.urlopen = self._orig[0]
            urllib.request.urlopen = self._orig[1]
