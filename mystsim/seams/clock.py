"""Simulated clock. The code under test has no timers; the clock exists so that stamps taken by
Sphinx (``time.time_ns`` in read_doc) are reproducible, so that the network stub can decide
"latency exceeds the caller's timeout", and to order events in the log."""

from __future__ import annotations

import time as _time

_REAL = {k: getattr(_time, k) for k in ("time", "time_ns", "monotonic", "monotonic_ns", "perf_counter", "sleep")}
EPOCH_US = 1_750_000_000_000_000  # fixed simulated epoch


class SimClock:
    def __init__(self):
        self.us = 0
        self.installed = False

    def now_us(self) -> int:
        return self.us

    def advance_us(self, d: int) -> None:
        self.us += int(d)

    # replacements for the time module
    def _time(self) -> float:
        self.us += 1
        return (EPOCH_US + self.us) / 1e6

    def _time_ns(self) -> int:
        self.us += 1
        return (EPOCH_US + self.us) * 1000

    def _monotonic(self) -> float:
        self.us += 1
        return self.us / 1e6

    def _monotonic_ns(self) -> int:
        self.us += 1
        return self.us * 1000

    def _sleep(self, s: float) -> None:
        self.us += int(s * 1e6)

    def install(self) -> None:
        """Only ever called inside a forked run process."""
        _time.time = self._time
        _time.time_ns = self._time_ns
        _time.monotonic = self._monotonic
        _time.monotonic_ns = self._monotonic_ns
        _time.perf_counter = self._monotonic
        _time.sleep = self._sleep
        self.installed = True

    def uninstall(self) -> None:
        for k, v in _REAL.items():
            setattr(_time, k, v)
        self.installed = False
