"""Randomness seam: the repository's own ``SphinxRenderer._random_label`` (its tests patch it too).

The label source is an input the simulator controls: ``sim-<docname>-<n>`` with n restarting at
each document, so two parses of one document agree and any *other* difference still shows.
"""

from __future__ import annotations


def install() -> None:
    from myst_parser.mdit_to_docutils.sphinx_ import SphinxRenderer

    def _random_label(self) -> str:
        doc = self.document
        n = getattr(doc, "_sim_label_n", 0) + 1
        doc._sim_label_n = n
        try:
            docname = self.sphinx_env.docname
        except Exception:  # noqa: BLE001
            docname = "doc"
        return f"sim-{docname.replace('/', '-')}-{n}"

    SphinxRenderer._random_label = _random_label
