"""Randomness seam: ``uuid4`` as used by ``SphinxRenderer._random_label`` (labels of numbered amsmath blocks).

The label source is an input the simulator controls.  It is interposed one level *below* the repository's
own ``_random_label`` method (which stays real code): the ``uuid4`` name bound in
``myst_parser.mdit_to_docutils.sphinx_`` and ``uuid.uuid4`` return ``sim-<docname>-<n>`` with n restarting at
each document, so two parses of one document agree and any *other* difference still shows - including a
``_random_label`` that stops using ``uuid4`` and draws from process-wide state instead.
"""

from __future__ import annotations

import sys
import uuid

_REAL_UUID4 = uuid.uuid4


class _SimUUID:
    """What ``str(uuid4())`` / ``uuid4().hex`` see."""

    def __init__(self, text: str):
        self._text = text
        self.hex = text.replace("-", "")

    def __str__(self) -> str:
        return self._text

    __repr__ = __str__


def _sim_uuid4():
    # the caller is ``_random_label(self)`` (or whatever the code under test turns it into): find the renderer
    f = sys._getframe(1)
    doc = None
    docname = "doc"
    for _ in range(4):
        if f is None:
            break
        obj = f.f_locals.get("self")
        doc = getattr(obj, "document", None)
        if doc is not None:
            try:
                docname = obj.sphinx_env.docname
            except Exception:  # noqa: BLE001
                docname = "doc"
            break
        f = f.f_back
    if doc is None:
        return _REAL_UUID4()  # not a label request of a renderer: leave it alone
    n = getattr(doc, "_sim_label_n", 0) + 1
    doc._sim_label_n = n
    return _SimUUID(f"sim-{str(docname).replace('/', '-')}-{n}")


def install() -> None:
    import myst_parser.mdit_to_docutils.sphinx_ as sx

    if "uuid4" in sx.__dict__:
        sx.uuid4 = _sim_uuid4
    uuid.uuid4 = _sim_uuid4
