"""File-system seam: an interposer on ``builtins.open`` / ``io.open`` / ``os.stat`` / ``os.lstat``.

Installed only inside forked pass processes.  Calls on paths outside the run's scratch project pass
through untouched and are not counted.  For calls inside it the *issuer* is the nearest frame outside
the standard library and the harness; a call is **faultable** only when the issuer belongs to
``myst_parser`` (DESIGN §4.3) - calls that docutils or Sphinx issue (also on MyST's behalf) are traced,
never faulted.  The fault plan names faultable calls by their running index.

Fault kinds
  errno kinds (open/stat):  ENOENT ENOTDIR EACCES EIO ENAMETOOLONG ELOOP | open only: EISDIR EMFILE ENFILE EPERM
  read kinds (open only):   read_eio (error once >= ``frac`` of the bytes were delivered),
                            torn (content cut at ``frac``), flip (one byte xor-ed at ``frac``)
"""

from __future__ import annotations

import builtins
import errno
import io
import os
import sys
import sysconfig

_STDLIB = os.path.realpath(sysconfig.get_paths()["stdlib"]) + os.sep
_HERE = os.path.dirname(os.path.dirname(os.path.realpath(__file__))) + os.sep  # .../mystsim/

STAT_ERRNOS = ["ENOENT", "ENOTDIR", "EACCES", "EIO", "ENAMETOOLONG", "ELOOP"]
OPEN_ERRNOS = STAT_ERRNOS + ["EISDIR", "EMFILE", "ENFILE", "EPERM"]
# rarer errnos (network file systems, resource exhaustion): drawn in sampled plans only, not part of the sweep alphabet
EXTRA_ERRNOS = ["ESTALE", "ETIMEDOUT", "EAGAIN", "ENOMEM", "EOVERFLOW", "EBUSY", "ENXIO"]
READ_KINDS = ["read_eio", "torn", "flip"]

_real_open = builtins.open
_real_io_open = io.open
_real_stat = os.stat
_real_lstat = os.lstat


class InjectedFault:
    """Mixin marker: lets the harness recognise its own exceptions in tracebacks."""


def _oserror(kind: str, path: str) -> OSError:
    code = getattr(errno, kind)
    e = OSError(code, os.strerror(code) + " (injected)", path)  # maps to the right subclass (FileNotFoundError...)
    e.injected = True  # type: ignore[attr-defined]
    return e


class FaultyRaw(io.RawIOBase):
    """Raw stream over ``data`` that raises EIO once ``fail_at`` bytes have been delivered."""

    def __init__(self, data: bytes, fail_at: int | None, path: str, on_fail=None, max_read: int | None = None):
        super().__init__()
        self._data = data
        self._pos = 0
        self._fail_at = fail_at
        self._path = path
        self._on_fail = on_fail
        self._max = max_read
        self.name = path

    def readable(self):
        return True

    def readinto(self, b):
        if self._fail_at is not None and self._pos >= self._fail_at:
            if self._on_fail:
                self._on_fail()
            raise _oserror("EIO", self._path)
        n = len(b)
        if self._max:
            n = min(n, self._max)
        end = min(len(self._data), self._pos + n)
        if self._fail_at is not None and self._pos < self._fail_at:
            end = min(end, self._fail_at)
        chunk = self._data[self._pos:end]
        b[: len(chunk)] = chunk
        self._pos = end
        return len(chunk)


class FsSeam:
    def __init__(self, root: str, faults: list[dict] | None = None, log=None, clock=None, observe_only=False,
                 interrupt_at: int | None = None):
        self.root = os.path.realpath(root)
        self.root_alt = root
        # a fault names its call by (issuing site, operation, project-relative path, n-th such call): robust
        # against the removal of unrelated constructs while a failing plan is minimised
        self.faults = {(f["site"], f["op"], f["rel"], int(f.get("nth", 0))): f for f in (faults or [])}
        # a *sticky* fault persists: it also hits every later call of the same kind on the same path (an outage or
        # a permission problem does not go away when the code retries)
        self.sticky = {(f["site"], f["op"], f["rel"]): f for f in (faults or []) if f.get("sticky")}
        self._occ: dict = {}
        self.log = log
        self.clock = clock
        self.observe_only = observe_only
        # "crash at an arbitrary point": the n-th faultable call raises KeyboardInterrupt (a BaseException, so no
        # ``except Exception`` recovery runs - only ``finally`` clean-ups do)
        self.interrupt_at = interrupt_at
        self.interrupted = False
        self.n_faultable = 0
        self.trace: list[dict] = []  # faultable calls, in order
        self.delivered: list[dict] = []
        self.upstream_calls = 0
        self.upstream_sites: dict = {}
        self.installed = False
        self._busy = False

    # ------------------------------------------------------------------ classification
    def _inside(self, path) -> str | None:
        try:
            p = os.fspath(path)
        except TypeError:
            return None
        if isinstance(p, bytes):
            try:
                p = p.decode("utf-8", "surrogateescape")
            except Exception:  # noqa: BLE001
                return None
        if not isinstance(p, str):
            return None
        if not os.path.isabs(p):
            p = os.path.join(os.getcwd(), p)
        p = os.path.normpath(p)
        for r in (self.root, self.root_alt):
            if p == r or p.startswith(r + os.sep):
                return p[len(r):].lstrip(os.sep) or "."
        return None

    @staticmethod
    def _issuer():
        """(is_myst, 'file.py:func') of the nearest frame outside the stdlib and the harness."""
        f = sys._getframe(1)
        while f is not None:
            fn = f.f_code.co_filename
            if (fn.startswith(_STDLIB) and "site-packages" not in fn) or fn.startswith(_HERE) or fn.startswith(
                    "<frozen"):
                f = f.f_back
                continue
            return "/myst_parser/" in fn, f"{os.path.basename(fn)}:{f.f_code.co_name}"
        return False, "?"

    # ------------------------------------------------------------------ the decision point
    def _decide(self, op: str, rel: str, site: str):
        """Count a faultable call; return the fault planned for it (or None)."""
        idx = self.n_faultable
        self.n_faultable += 1
        if self.clock is not None:
            self.clock.advance_us(53)
        if self.interrupt_at is not None and idx == self.interrupt_at:
            self.interrupted = True
            raise KeyboardInterrupt("simulated interrupt at an I/O call")
        key = (site, op, rel)
        nth = self._occ.get(key, 0)
        self._occ[key] = nth + 1
        fault = None if self.observe_only else self.faults.get((site, op, rel, nth))
        if fault is None and not self.observe_only:
            st = self.sticky.get(key)
            if st is not None and nth > int(st.get("nth", 0)):
                fault = st
        rec = {"i": idx, "site": site, "op": op, "path": _path_class(rel), "rel": rel, "nth": nth,
               "depth": _include_depth()}
        self.trace.append(rec)
        return idx, fault, rec

    def _note(self, rec, outcome: str):
        rec["outcome"] = outcome
        if self.log is not None:
            self.log.add("seam", i=rec["i"], site=rec["site"], op=rec["op"], path=rec["path"], outcome=outcome)

    def _deliver(self, rec, fault, how: str):
        d = {"at_call": rec["i"], "site": rec["site"], "op": rec["op"], "path": rec["path"], "rel": rec["rel"],
             "nth": rec["nth"], "depth": rec["depth"], "kind": fault["kind"], "how": how}
        self.delivered.append(d)

    # ------------------------------------------------------------------ replacements
    def _open(self, file, mode="r", buffering=-1, encoding=None, errors=None, newline=None, closefd=True,
              opener=None):
        rel = None if self._busy or isinstance(file, int) else self._inside(file)
        if rel is None or any(c in mode for c in "wax+"):
            return _real_io_open(file, mode, buffering, encoding, errors, newline, closefd, opener)
        is_myst, site = self._issuer()
        if not is_myst:
            self.upstream_calls += 1
            self.upstream_sites[site] = self.upstream_sites.get(site, 0) + 1
            return _real_io_open(file, mode, buffering, encoding, errors, newline, closefd, opener)
        idx, fault, rec = self._decide("open", rel, site)
        if fault is None:
            try:
                fh = _real_io_open(file, mode, buffering, encoding, errors, newline, closefd, opener)
            except BaseException as e:  # noqa: BLE001
                self._note(rec, "err:" + type(e).__name__)
                raise
            self._note(rec, "ok")
            return fh
        kind = fault["kind"]
        if kind in OPEN_ERRNOS or kind in EXTRA_ERRNOS:
            self._note(rec, "inject:" + kind)
            self._deliver(rec, fault, "raise-at-open")
            raise _oserror(kind, os.fspath(file))
        # read-level faults: need the real content first
        self._busy = True
        try:
            try:
                with _real_io_open(file, "rb") as fh:
                    data = fh.read()
            except BaseException as e:  # noqa: BLE001
                self._note(rec, "err:" + type(e).__name__ + ";fault-not-applicable")
                raise
        finally:
            self._busy = False
        frac = float(fault.get("frac", 0.5))
        pos = min(len(data), int(len(data) * frac))
        fail_at = None
        on_fail = None
        if kind == "read_eio":
            fail_at = pos
            delivered = self._deliver

            def on_fail(rec=rec, fault=fault):
                if not rec.get("_d"):
                    rec["_d"] = True
                    delivered(rec, fault, "raise-at-read")
        elif kind == "torn":
            data = data[:pos]
            self._deliver(rec, fault, "content-torn")
        elif kind == "flip":
            if data:
                p = min(pos, len(data) - 1)
                data = data[:p] + bytes([data[p] ^ int(fault.get("xor", 0x80))]) + data[p + 1:]
            self._deliver(rec, fault, "content-flipped")
        elif kind == "garbage":
            data = bytes((i * 37 + 11) % 256 for i in range(max(16, min(len(data), 300))))
            self._deliver(rec, fault, "content-garbage")
        else:  # a kind that does not apply to open(): no fault
            self._note(rec, "ok;fault-kind-not-applicable")
            return _real_io_open(file, mode, buffering, encoding, errors, newline, closefd, opener)
        self._note(rec, f"inject:{kind}@{pos}")
        raw = FaultyRaw(data, fail_at, os.fspath(file), on_fail, max_read=fault.get("max_read"))
        buf = io.BufferedReader(raw, buffer_size=int(fault.get("bufsize", 64)))
        if "b" in mode:
            return buf
        return io.TextIOWrapper(buf, encoding=encoding, errors=errors, newline=newline)

    def _stat_common(self, real, op, path, args, kwargs):
        rel = None if self._busy or isinstance(path, int) else self._inside(path)
        if rel is None:
            return real(path, *args, **kwargs)
        is_myst, site = self._issuer()
        if not is_myst:
            self.upstream_calls += 1
            return real(path, *args, **kwargs)
        idx, fault, rec = self._decide(op, rel, site)
        if fault is None or fault["kind"] not in STAT_ERRNOS + EXTRA_ERRNOS:
            try:
                st = real(path, *args, **kwargs)
            except BaseException as e:  # noqa: BLE001
                self._note(rec, "err:" + type(e).__name__)
                raise
            self._note(rec, "ok")
            return st
        self._note(rec, "inject:" + fault["kind"])
        self._deliver(rec, fault, "raise-at-stat")
        raise _oserror(fault["kind"], os.fspath(path))

    def _stat(self, path, *args, **kwargs):
        return self._stat_common(_real_stat, "stat", path, args, kwargs)

    def _lstat(self, path, *args, **kwargs):
        return self._stat_common(_real_lstat, "lstat", path, args, kwargs)

    # ------------------------------------------------------------------ install
    def install(self):
        """Only ever called inside a forked pass process."""
        builtins.open = self._open
        io.open = self._open
        os.stat = self._stat
        os.lstat = self._lstat
        self.installed = True

    def uninstall(self):
        builtins.open = _real_open
        io.open = _real_io_open
        os.stat = _real_stat
        os.lstat = _real_lstat
        self.installed = False


def _include_depth() -> int:
    """How many MyST include directives are in progress on the current stack."""
    n = 0
    f = sys._getframe(1)
    while f is not None:
        if f.f_code.co_name == "run" and f.f_code.co_filename.endswith("/myst_parser/mocking.py"):
            n += 1
        f = f.f_back
    return n


def _path_class(rel: str) -> str:
    """A coarse, workload-independent class of a project-relative path (for traces and signatures)."""
    base = os.path.basename(rel)
    if rel.endswith(".inv"):
        return "inventory"
    if rel.endswith(".inc"):
        return "include-target"
    if rel.endswith(".md"):
        return "document"
    if len(base) > 255:
        return "over-long-name"
    if "\x00" in rel:
        return "nul-in-path"
    return "other:" + (os.path.splitext(base)[1] or "noext")
