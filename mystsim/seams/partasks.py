"""Simulated ``sphinx.util.parallel.ParallelTasks``: the scheduler owns the partition of documents
into chunks, the fork points and the completion/merge order.

The class subclasses Sphinx's real one so that the *child side* (``_process``: log collection,
exception capture, pickling of the result) is Sphinx's real code.  A started task is forked from
the parent **as it is at that instant**, run to completion, and its pickled result buffered; a
later *deliver* event replays its log records and calls Sphinx's real result function (``merge``).
Sphinx workers share nothing with each other or the parent except the read-only source tree and
distinct output files, so fork points and merge points are the only schedule-relevant events.

Like the real class, waiting tasks are started eagerly whenever capacity is free; *which* waiting
task starts and *which* finished result is delivered next (or none yet) are seeded decisions.
"""

from __future__ import annotations

import multiprocessing

from sphinx.errors import SphinxParallelError
from sphinx.util import logging as sphinx_logging
from sphinx.util.parallel import ParallelTasks

logger = sphinx_logging.getLogger("sphinx.util.parallel")


class Scheduler:
    """Decisions are consumed from a literal list (replayable); 0 when it is exhausted."""

    def __init__(self, plan_variant: dict, log=None):
        self.v = plan_variant
        self.decisions = list(plan_variant.get("sched", []))
        self.pos = 0
        self.log = log
        self.events: list = []
        self.phase = 0
        self.forks_after_merge = 0
        self.merges = 0
        self.max_running = 0

    def choose(self, n: int, what: str) -> int:
        if n <= 1:
            return 0
        d = self.decisions[self.pos] if self.pos < len(self.decisions) else 0
        self.pos += 1
        return d % n

    def record(self, *ev):
        self.events.append(list(ev))
        if self.log is not None:
            self.log.add("sched", ev=list(ev))


def install(scheduler: Scheduler):
    """Replace the names that ``sphinx.builders`` imported. Only ever called in a forked child."""
    import sphinx.builders as sb

    def sim_make_chunks(arguments, nproc, maxbatch=10):
        phase = "read" if scheduler.phase == 0 else "write"
        scheduler.phase += 1
        mapping = scheduler.v.get(f"{phase}_chunks") or {}
        groups: dict = {}
        for a in arguments:
            groups.setdefault(mapping.get(a, f"_solo_{a}"), []).append(a)
        order = sorted(groups, key=lambda g: str(g))
        chunks = [groups[g] for g in order]
        scheduler.record("chunks", phase, [list(c) for c in chunks])
        return chunks

    class SimParallelTasks(ParallelTasks):
        def __init__(self, nproc: int) -> None:
            super().__init__(nproc)
            self.nproc = max(1, int(scheduler.v.get("nproc", nproc)))
            self._funcs: dict = {}
            self._waiting: list[int] = []
            self._running: list[int] = []
            self._buffered: dict = {}

        def add_task(self, task_func, arg=None, result_func=None) -> None:
            tid = self._taskid
            self._taskid += 1
            self._result_funcs[tid] = result_func or (lambda arg, result: None)
            self._args[tid] = arg
            self._funcs[tid] = task_func
            self._waiting.append(tid)
            scheduler.record("add", tid)
            self._opportunity(may_idle=True)

        def join(self) -> None:
            while self._waiting or self._running:
                self._opportunity(may_idle=False)

        def terminate(self) -> None:  # nothing is left running: every child ran to completion
            self._running.clear()
            self._waiting.clear()

        # -- one scheduling opportunity (the real class has one per add_task and per poll in join)
        def _opportunity(self, may_idle: bool) -> None:
            if self._running:
                n = len(self._running) + (1 if may_idle else 0)
                k = scheduler.choose(n, "deliver")
                if k < len(self._running):
                    self._deliver(self._running.pop(k))
            while self._waiting and len(self._running) < self.nproc:
                k = scheduler.choose(len(self._waiting), "start")
                self._start(self._waiting.pop(k))

        def _start(self, tid: int) -> None:
            precv, psend = multiprocessing.Pipe(False)
            ctx = multiprocessing.get_context("fork")
            p = ctx.Process(target=self._process, args=(psend, self._funcs[tid], self._args[tid]))
            scheduler.record("start", tid)
            if scheduler.merges:
                scheduler.forks_after_merge += 1
            p.start()
            psend.close()
            if not precv.poll(300):
                p.kill()
                p.join()
                raise RuntimeError(f"simulated worker for task {tid} produced no result within 300 s")
            self._buffered[tid] = precv.recv()
            p.join()
            self._running.append(tid)
            scheduler.max_running = max(scheduler.max_running, len(self._running))

        def _deliver(self, tid: int) -> None:
            exc, logs, result = self._buffered.pop(tid)
            scheduler.record("finish", tid)
            if exc:
                raise SphinxParallelError(*result)
            for log in logs:
                logger.handle(log)
            self._result_funcs.pop(tid)(self._args.pop(tid), result)
            scheduler.merges += 1

    sb.ParallelTasks = SimParallelTasks
    sb.make_chunks = sim_make_chunks
    return SimParallelTasks
