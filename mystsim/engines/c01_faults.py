"""C01 (fault slice) — parsing is total under file-system and network faults.

One run = one generated project (documents with an error vocabulary, include files, inventories, link
targets, plus static file-system conditions created for real) parsed through one front end
(docutils ``publish_doctree`` per document, or an in-process Sphinx application) in

  1. a *recording pass* (forked child, interposer in observe-only mode) that yields the ordered trace of
     faultable seam calls and is itself a fault-free evaluation, and
  2. *faulted passes* (one forked child each): either the complete single-fault sweep of the workload
     (every faultable call x every applicable fault kind) or sampled plans of 1-3 faults.

Invariants (DESIGN §4.4): I1 no exception escapes the front end; I2 a document comes back; I3 the call
terminates; I4 a delivered error fault on an include read or an inventory fetch is reported (a new
warning line or system message that the recording pass did not have).
"""

from __future__ import annotations

import io
import os
import re
import shutil
import tempfile

from .. import sut
from ..core import proc
from ..core.eventlog import EventLog
from ..core.rng import sha, stream
from ..gen import docs as gd
from ..gen import hazards as gh
from ..seams import fs as fsseam
from ..seams.clock import SimClock

ERROR_KINDS = set(fsseam.OPEN_ERRNOS) | set(fsseam.EXTRA_ERRNOS) | {"read_eio", "refused", "http404", "http500",
                                                                    "timeout", "reset", "bad_status",
                                                                    "incomplete_read"}
CONTENT_KINDS = {"torn", "flip", "garbage", "truncated"}
URLOPEN_KINDS = ["refused", "http404", "http500", "timeout", "reset", "truncated", "garbage"]
SWEEP_FRACS = [0.0, 0.5, 0.999]
MAX_SWEEP_PASSES = {"docutils": 400, "sphinx": 160}


# (a body damaged only near its end is not in this set: the pinned loader deliberately tolerates a truncated zlib
# stream and returns the complete lines, so such a file is not "unloadable" for it)
UNLOADABLE = {"inv_bad_header", "inv_not_compressed", "inv_garbage_body", "inv_bad_utf8", "inv_empty"}
SUPPRESSIBLE = ["myst", "myst.html", "myst.topmatter", "myst.directive_option", "myst.directive_parse",
                "myst.directive_unknown", "myst.role_unknown", "myst.substitution", "myst.inv_retrieval",
                "myst.xref_missing", "myst.header", "myst.not_supported", "myst.strikethrough", "myst.iref_missing",
                "myst.attribute", "myst.duplicate_def", "myst.directive_comments", "docutils"]


# warning type -> (a construct that raises it, extensions it needs)
SUPPRESS_CONSTRUCTS = {
    "myst.html": ("<div>\n<![x] foo>\n</div>", ["html_admonition", "html_image"]),
    "myst.topmatter": ("---\nmyst:\n  heading_anchors: 99\n  unknown_field: 1\n---\n", []),
    "myst.directive_option": ("```{note}\n:class: [unclosed\n:unknownopt: 1\n\nbody\n```", []),
    "myst.directive_parse": ("```{image}\n```", []),
    "myst.directive_unknown": ("```{no-such-directive} arg\nbody\n```", []),
    "myst.role_unknown": ("{nosuchrole}`x`", []),
    "myst.substitution": ("{{ undefined_key }} {{ 1 + }}", ["substitution"]),
    "myst.xref_missing": ("[x](#no-such-anchor) [](missing-target)", []),
    "myst.header": ("# Top\n\n#### Jumped level", []),
    "myst.not_supported": ("> ---\n> quote", []),
    "myst.strikethrough": ("~~struck~~", ["strikethrough"]),
    "myst.iref_missing": ("<inv:key#no-such-object>", []),
    "myst.attribute": ("[span]{bad=} ![a](img.png){width=wide}", ["attrs_inline"]),
    "myst.duplicate_def": ("[dupref]: https://a.example\n\n[dupref]: https://b.example\n\n[^dupfn]: one\n\n[^dupfn]: two", []),
    "myst.directive_comments": ("```{note}\n---\nclass: x  # a comment\n---\nbody\n```", []),
}


def kinds_for(op: str, extended: bool = False) -> list[dict]:
    """Every applicable single fault for one seam call (the sweep's fault alphabet; ``extended`` adds the rarer
    errnos that only sampled plans draw)."""
    out: list[dict] = []
    if extended and op in ("stat", "lstat", "open"):
        out += [{"kind": k} for k in fsseam.EXTRA_ERRNOS]
    if op in ("stat", "lstat"):
        out += [{"kind": k} for k in fsseam.STAT_ERRNOS]
    elif op == "open":
        out += [{"kind": k} for k in fsseam.OPEN_ERRNOS]
        out += [{"kind": "read_eio", "frac": f} for f in SWEEP_FRACS]
        out += [{"kind": "torn", "frac": f} for f in SWEEP_FRACS]
        out += [{"kind": "flip", "frac": f, "xor": 0x80} for f in SWEEP_FRACS]
        out += [{"kind": "garbage"}]
    elif op == "urlopen":
        out += [{"kind": k} for k in ("refused", "http404", "http500", "timeout", "garbage", "bad_status")]
        out += [{"kind": "reset", "frac": f} for f in SWEEP_FRACS]
        out += [{"kind": "incomplete_read", "frac": f} for f in SWEEP_FRACS]
        out += [{"kind": "truncated", "frac": f} for f in SWEEP_FRACS]
    return out


class Engine:
    name = "c01_faults"
    property_id = "C01"
    level = "fault_enumeration"
    fork_per_run = True
    run_timeout_s = 1500
    minimise_budget_s = 120
    default_runs = {"quick": 256, "thorough": 10_000_000}
    default_budget_s = {"quick": 60, "thorough": 900}
    determinism_sample = {"quick": 12, "thorough": 48}
    rule = (
        "one run = one generated project (documents carrying an error vocabulary for the nine recovery mechanisms, "
        "include files, inventories by path and by URL, link targets, 0-3 static file-system conditions such as "
        "missing / directory / undecodable / self-including / cyclic include targets and broken inventories) parsed "
        "through one front end (docutils publish_doctree or an in-process Sphinx build with post-transforms) in a "
        "recording pass plus faulted passes: for sweep runs EVERY (faultable call x applicable fault kind) "
        "single-fault plan of that workload, otherwise 3-6 sampled plans of 1-3 faults; faults are delivered only "
        "at I/O calls issued by myst_parser code (include read, inventory open/urlopen/read, Sphinx link probe); "
        "an evaluation is one pass; non-trivial = a pass in which at least one fault was delivered; distinct = "
        "distinct (workload digest, delivered fault set) pairs"
    )
    assumptions = [
        "the input x configuration factor of C01 is sampled by the workload generator only; the fault factor is "
        "what this check decides (DESIGN §4.1)",
        "an exception raised inside a docutils/Sphinx writer (a frame under .../writers/) or in the builder's "
        "per-document write / finishing step (write_doc, page context, indices), i.e. after the document was read and "
        "its references resolved, is outside C01 (parse + transforms + post-transforms) and is counted, not reported",
        "docutils runs with halt_level=5 (its default halt_level=4 aborts by configuration on a SEVERE message such "
        "as a missing include), report_level=2, traceback=True",
        "calls issued by docutils or Sphinx (also on MyST's behalf: env.relfn2path -> Path.resolve, image "
        "collectors, rST include inside eval-rst, csv-table :file:) are traced, never faulted (DESIGN §4.3)",
        "fault kinds are restricted to what the operation can really return; stalled reads and allocation "
        "failures are not injected (DESIGN §3.4)",
        "I4 is demanded only for error faults (raise at open/urlopen/read) at calls that succeeded in the "
        "recording pass, and not for inventory faults when the configuration suppresses myst.inv_retrieval",
    ]
    real_vs_stub = {
        "real": ["all of myst_parser", "markdown-it-py + plugins", "docutils publisher/transforms", "Sphinx "
                 "application/environment/builders/post-transforms (serial, in-process)", "PyYAML, Jinja2, Pygments, "
                 "zlib", "the file system under the scratch project (static conditions are created for real)"],
        "stub": ["outcome of project-file open/stat/read issued by myst_parser when the plan says so (FS interposer)",
                 "every URL (myst_parser.inventory.urlopen -> NetSeam)", "amsmath label source", "clock"],
        "reference_model": "none (invariant-only); the recording pass of the same workload is the baseline for I4",
    }

    def prepare(self):
        import docutils.core  # noqa: F401
        import sphinx.application  # noqa: F401
        import sphinx.builders.dirhtml  # noqa: F401
        import sphinx.builders.html  # noqa: F401
        import sphinx.builders.latex  # noqa: F401
        import sphinx.builders.texinfo  # noqa: F401
        import sphinx.builders.text  # noqa: F401
        import sphinx.builders.xml  # noqa: F401

        import myst_parser.inventory  # noqa: F401
        import myst_parser.parsers.docutils_  # noqa: F401
        import myst_parser.parsers.sphinx_  # noqa: F401
        import myst_parser.sphinx_ext.main  # noqa: F401

    # ------------------------------------------------------------------ planning (pure)
    def plan(self, seed_run: int, tier: str) -> dict:
        g = stream(seed_run, "gen")
        f = stream(seed_run, "faults")
        front_end = "docutils" if g.random() < 0.62 else "sphinx"
        features = None
        if g.random() < 0.4:
            features = sorted(g.sample(gd.ALL_FEATURES, k=g.randint(8, len(gd.ALL_FEATURES) - 1)))
            for must in ("para", "heading", "includes", "doc_links", "unknown_links", "file_links", "inv_links"):
                if must not in features:
                    features.append(must)
        sweep = f.random() < (0.22 if tier == "quick" else 0.12)
        n_docs = g.randint(1, 3) if (front_end == "sphinx" and sweep) else g.randint(2, 4)
        rich_cfg = gd.gen_config(g, front_end, rich=True) if g.random() < 0.5 else None
        proj = gd.gen_project(g, n_docs=n_docs, front_end=front_end, features=features, cfg=rich_cfg,
                              n_blocks=g.choice([3, 5, 8] if sweep else [3, 5, 8, 12, 18]))
        files = proj["files"]
        cfg = proj["cfg"]
        cfg.pop("inventories", None)
        if g.random() < 0.3:  # swarm: every recovery mechanism also has a "warning suppressed" branch
            cfg["suppress_warnings"] = sorted(g.sample(SUPPRESSIBLE, k=g.choice([1, 1, 2, 4])))
            # ... which only runs if the construct that raises that warning is in a document
            types = [t for t in cfg["suppress_warnings"] if t in SUPPRESS_CONSTRUCTS]
            if "myst" in cfg["suppress_warnings"]:
                types += g.sample(sorted(SUPPRESS_CONSTRUCTS), k=3)
            for t in types:
                if g.random() < 0.85:
                    snippet, need_ext = SUPPRESS_CONSTRUCTS[t]
                    d = g.choice(proj["docs"]) + ".md"
                    if snippet.startswith("---\n"):
                        if not files[d].startswith("---"):
                            files[d] = snippet + "\n" + files[d]
                    else:
                        files[d] = files[d].rstrip("\n") + "\n\n" + snippet + "\n"
                    for e in need_ext:
                        if e not in cfg["enable_extensions"]:
                            cfg["enable_extensions"] = sorted(cfg["enable_extensions"] + [e])
        hazards = gh.apply(g, proj, front_end, g.choice([0, 1, 2, 2, 3, 4]))
        if front_end == "sphinx" and len(proj["docs"]) >= 2 and g.random() < 0.35:
            # an orphan: a document outside every toctree (and so outside the latex/texinfo document tree)
            orphan = g.choice(proj["docs"])
            files["index.md"] = "\n".join(ln for ln in files["index.md"].split("\n") if ln.strip() != orphan)
            if g.random() < 0.5 and not files[orphan + ".md"].startswith("---"):
                files[orphan + ".md"] = "---\norphan: true\n---\n\n" + files[orphan + ".md"]
            # ... and references to it from inside the tree, in every "any"-style spelling
            files[orphan + ".md"] = files[orphan + ".md"].rstrip("\n") + (
                "\n\n(orph-lab)=\n## Orphan Section\n\ntext\n\n```{py:function} orphmod.orph_func(x)\ndoc\n```\n\n"
                "```{c:function} int orph_cfunc(int x)\ndoc\n```\n\n```{glossary}\norphterm\n  definition\n```\n")
            others = [d for d in proj["docs"] if d != orphan]
            src = g.choice(others)
            rel = gd.relpath_from(src, orphan)
            files[src + ".md"] = files[src + ".md"].rstrip("\n") + (
                f"\n\n[t](orph-lab) [](#orph-lab) [t](/{orphan}) []({rel}.md) []({rel}.md#orphan-section) "
                f"{{ref}}`orph-lab` {{doc}}`/{orphan}` <project:#orph-lab> <project:{rel}.md> "
                # objects of other domains described on the orphan page: their own resolvers build the reference
                f"[x](#orphmod.orph_func) [](orphmod.orph_func) {{py:func}}`orphmod.orph_func` [](#orph_cfunc) "
                f"{{term}}`orphterm` [](#orphterm)\n")
            hazards.append("orphan_document")
        urls: dict = {}
        inv_hazards: list = []
        parse_docs: list = []
        if front_end == "docutils":
            docs = [d + ".md" for d in proj["docs"]]
            parse_docs = g.sample(docs, k=min(len(docs), g.choice([1, 1, 2])))
            if g.random() < 0.7:
                cfg["inventories"], urls, inv_hazards = gh.inventories(g, proj)
                for d in parse_docs:
                    if g.random() < 0.8:
                        links = " ".join(g.sample(gh.INV_LINKS, k=g.randint(1, 3)))
                        # placed early as well as late: the first inv: link triggers loading of *all* inventories
                        if g.random() < 0.5:
                            files[d] = files[d].rstrip("\n") + f"\n\n{links}\n"
                        else:
                            head, sep, tail = files[d].partition("\n\n")
                            if head.startswith("---"):
                                files[d] = files[d].rstrip("\n") + f"\n\n{links}\n"
                            else:
                                files[d] = head + "\n\n" + links + sep + tail
        inv_conditions = dict(zip(["key", "remote", "third"], inv_hazards))
        # docutils' own settings that change how MyST's I/O and recovery code runs (swarm, docutils front end)
        dsettings: dict = {}
        if front_end == "docutils" and g.random() < 0.4:
            for name, values in (("file_insertion_enabled", [False]), ("raw_enabled", [False]),
                                 ("input_encoding", ["utf-8-sig", "latin-1", "ascii"]), ("tab_width", [4, 2]),
                                 ("line_length_limit", [200, 80]), ("report_level", [1, 3]),
                                 ("strip_comments", [True]), ("doctitle_xform", [False]),
                                 ("syntax_highlight", ["short", "none"]), ("id_prefix", ["p-"])):
                if g.random() < (0.5 if name == "strip_comments" else 0.3):
                    dsettings[name] = g.choice(values)
        base = {"engine": self.name, "front_end": front_end, "files": files, "cfg": cfg, "urls": urls,
                "inv_conditions": inv_conditions, "docutils_settings": dsettings,
                "parse_docs": parse_docs, "hazards": hazards + inv_hazards,
                # post-transforms depend on the builder (latex/texinfo raise NoUri for documents outside their tree)
                "builder": g.choice(["xml"] * 10 + ["html"] * 3 + ["latex", "latex", "latex", "texinfo", "texinfo", "text",
                                     "dirhtml"]),
                "error_handler": g.choice(["strict", "strict", "replace", "backslashreplace"])}
        if sweep:
            base["builder"] = "xml"  # a sweep is ~100 builds of one workload: keep them cheap
            return {**base, "mode": "sweep"}
        picks = []
        for _ in range(f.choice([3, 4, 6])):
            one = []
            for _ in range(f.choice([1, 1, 1, 2, 3])):
                one.append({"cls": f.choice(["any", "any", "include", "nested", "second_use", "inventory",
                                             "link_probe", "failed_before"]),
                            "u": f.random(), "ku": f.random(), "frac": f.choice([0.0, 0.1, 0.5, 0.9, 0.999]),
                            "xor": f.choice([1, 0x20, 0x80, 0xFF]), "bufsize": f.choice([1, 16, 64, 8192]),
                            "max_read": f.choice([None, None, 1, 7]), "sticky": f.random() < 0.3})
            picks.append(one)
        return {**base, "mode": "sampled", "picks": picks}

    def plan_size(self, plan) -> dict:
        return {"files": len(plan["files"]), "fault_plans": len(plan.get("fault_plans") or plan.get("picks") or []),
                "chars": sum(len(v) for v in plan["files"].values() if isinstance(v, str))}

    # ------------------------------------------------------------------ execution
    def execute(self, plan: dict) -> dict:
        clock = SimClock()
        log = EventLog(clock=clock)
        ctr: dict = {}
        violations: list = []
        nontrivial: set = set()
        evals = 0
        concrete_plan = None
        delivered_any = False

        def count(name, n=1):
            ctr[name] = ctr.get(name, 0) + n

        fe = plan["front_end"]
        root = tempfile.mkdtemp(prefix="run-", dir=os.environ.get("MYSTSIM_SCRATCH") or None)
        try:
            sut.write_tree(root, plan["files"])
            wdig = sha(repr(sorted((k, repr(v)) for k, v in plan["files"].items())) + repr(plan["cfg"]) + fe
                       + repr(plan["parse_docs"]) + repr(sorted(plan["urls"])))[:16]
            log.add("plan", workload=wdig, front_end=fe, mode=plan["mode"], hazards=plan["hazards"])
            count("front_end:" + fe)
            for h in plan["hazards"]:
                count("static_condition:" + h)

            def violate(inv, channel, faults, **detail):
                nonlocal concrete_plan
                violations.append({"invariant": inv, "signature": f"{self.name}/{inv}/{channel}", "detail": detail})
                concrete_plan = {k: v for k, v in plan.items() if k not in ("picks",)}
                concrete_plan.update(mode="explicit", fault_plans=[faults] if faults else [])

            # ---- recording pass (fault-free evaluation)
            rec = self._run_pass(plan, root, [], True, violate, count, None)
            evals += 1
            count("passes_fault_free")
            if rec is not None:
                for t in rec["trace"]:
                    log.add("seam", p=0, **{k: t.get(k) for k in ("i", "site", "op", "path", "outcome")})
                    count(f"calls:{t['site']}/{t['op']}")
                log.add("obs", p=0, status=rec["status"], sha256=sha(repr(rec["msgs"]))[:16])
                count("upstream_calls_traced_not_faulted", rec["upstream_calls"])
                for m, n in rec["mechanisms"].items():
                    count("recovery:" + m, n)
                _trace_probes(rec["trace"], count)
                # I4 (static conditions): a read that failed for real - the target is missing, a directory,
                # unreadable - is reported too: some message names the file
                if not violations and rec["status"] == "ok":
                    sup = plan["cfg"].get("suppress_warnings") or []
                    for t in rec["trace"]:
                        if t["op"] != "open" or not str(t.get("outcome", "")).startswith("err:"):
                            continue
                        base = os.path.basename(t["rel"])
                        if not re.fullmatch(r"[\w.-]{3,80}", base):
                            continue  # over-long or exotic names may be escaped or shortened in messages
                        if t["site"].startswith("inventory.py") and _inv_quiet(plan):
                            continue
                        if fe == "sphinx" and "docutils" in sup:
                            continue
                        count("i4_static_checked")
                        if not any(base in m for m in rec["msgs"]):
                            violate("I4", f"{fe}:{t['site']}/open/{t['outcome'][4:]}:static-condition-not-reported", [],
                                    front_end=fe, call=t, messages=rec["msgs"][:15])
                            break
                # ... and an inventory that was fetched but cannot be a valid inventory (bad header, not compressed,
                # a body that is no zlib stream, invalid UTF-8, empty) is reported as a failed load, not silently taken
                # as empty
                if not violations and rec["status"] == "ok" and not _inv_quiet(plan):
                    fetched = sum(1 for t in rec["trace"] if t["site"].startswith("inventory.py")
                                  and t["op"] in ("open", "urlopen"))
                    if fetched >= len(plan["cfg"].get("inventories") or {}) > 0:  # all were loaded (lazily, at once)
                        for key, h in (plan.get("inv_conditions") or {}).items():
                            if h in UNLOADABLE and key in plan["cfg"]["inventories"]:
                                count("i4_static_checked_inventory")
                                if not any("inv_retrieval" in m and f"'{key}'" in m for m in rec["msgs"]):
                                    violate("I4", f"{fe}:inventory/{h}:unloadable-inventory-not-reported", [],
                                            front_end=fe, key=key, condition=h, messages=rec["msgs"][:15])
                                    break
            trace = rec["trace"] if rec is not None else []

            # ---- fault plans
            fault_plans: list = []
            exhaustive = False
            if not violations:
                if plan["mode"] == "explicit":
                    fault_plans = [fp for fp in plan["fault_plans"] if fp]
                elif plan["mode"] == "sweep":
                    for t in trace:
                        for k in kinds_for(t["op"]):
                            fault_plans.append([_concrete(t, trace, k)])
                    cap = MAX_SWEEP_PASSES[fe]
                    exhaustive = len(fault_plans) <= cap
                    count("sweep_runs")
                    if not exhaustive:
                        count("sweep_runs_capped")
                        fault_plans = _stride(fault_plans, cap)
                else:
                    for one in plan["picks"]:
                        fp = []
                        for pick in one:
                            c = _resolve_pick(pick, trace)
                            if c is not None:
                                fp.append(c)
                        if fp:
                            fault_plans.append(fp)
                        else:
                            count("sampled_plans_without_faultable_call")
            suppressed_inv = _inv_quiet(plan)
            for pi, fp in enumerate(fault_plans, 1):
                res = self._run_pass(plan, root, fp, False, violate, count, rec)
                evals += 1
                if res is None:
                    break
                count("passes_faulted")
                for d in res["delivered"]:
                    count(f"delivered:{d['kind']}")
                    count(f"delivered_at:{d['site']}/{d['op']}")
                    count(f"delivered_how:{d['how']}")
                    log.add("fault", p=pi, **{("fault_kind" if k == "kind" else k): v for k, v in d.items()})
                if len(res["delivered"]) < len(fp):
                    count("faults_planned_not_delivered", len(fp) - len(res["delivered"]))
                if res["delivered"]:
                    delivered_any = True
                    nontrivial.add(sha(wdig + repr(sorted((d["site"], d["op"], d["rel"], d["nth"], d["kind"],
                                                           d.get("frac")) for d in _with_keys(res["delivered"], fp)))
                                       )[:16])
                    _delivery_probes(res["delivered"], fp, count)
                log.add("obs", p=pi, status=res["status"], sha256=sha(repr(res["msgs"]))[:16],
                        ncalls=len(res["trace"]))
                if violations:
                    break
                # I4: every delivered *error* fault on an include read / inventory fetch is reported
                new = [m for m in res["msgs"] if m not in set(rec["msgs"])]
                eligible: set = set()
                for d in res["delivered"]:
                    if d["kind"] not in ERROR_KINDS or d["op"] not in ("open", "urlopen"):
                        continue
                    if d["site"].startswith("inventory.py") and suppressed_inv:
                        count("i4_skipped_suppressed")
                        continue
                    if fe == "sphinx" and "docutils" in (plan["cfg"].get("suppress_warnings") or []):
                        # include errors are docutils system messages, which Sphinx logs with type "docutils":
                        # the configuration asked for them not to be shown
                        count("i4_skipped_suppressed")
                        continue
                    if not d.get("recorded_ok"):
                        count("i4_skipped_call_failed_in_recording")
                        continue
                    count("i4_checked")
                    eligible.add((d["site"], d["op"], d["rel"]))  # per file: the same file failing twice may
                    #                                                   repeat a message line verbatim
                    if not new:
                        violate("I4", f"{fe}:{d['site']}/{d['op']}/{d['kind']}:not-reported", fp,
                                front_end=fe, delivered=res["delivered"], messages_before=rec["msgs"][:12],
                                messages_after=res["msgs"][:12])
                        break
                if violations:
                    break
                if len(eligible) >= 2:
                    # several failing reads in one pass: each has its own report (a different file, key or line)
                    count("i4_checked_multi")
                    if len(new) < len(eligible):
                        violate("I4", f"{fe}:{len(eligible)}-faults:fewer-reports-than-faults", fp, front_end=fe,
                                delivered=res["delivered"], new_messages=new[:12])
                        break
            if plan["mode"] == "sweep" and not violations and exhaustive:
                count("sweeps_completed_exhaustively")
                count("sweep_single_fault_plans", len(fault_plans))
            log.add("end", evals=evals, violations=len(violations))
        finally:
            shutil.rmtree(root, ignore_errors=True)
        out = {
            "evals": evals, "digest": log.digest(), "nontrivial": sorted(nontrivial), "counters": ctr,
            "violations": violations[:1], "sim_us": clock.now_us() + 1000 * evals, "fault_free": not delivered_any,
            "sample": {"front_end": fe, "mode": plan["mode"], "hazards": plan["hazards"],
                       "documents": sorted(k for k in plan["files"] if k.endswith(".md")),
                       "parse_docs": plan["parse_docs"], "cfg": plan["cfg"],
                       "faultable_calls": [f"{t['site']}/{t['op']}/{t['path']}" for t in trace][:20]},
        }
        if concrete_plan is not None:
            out["concrete_plan"] = concrete_plan
        return out

    def _run_pass(self, plan, root, faults, observe_only, violate, count, rec):
        """One pass in a forked child, with I1-I3 applied. Returns the pass result or None after a violation."""
        fe = plan["front_end"]
        timeout = 150.0
        try:
            st, val = proc.run_in_child(_pass, (plan, root, faults, observe_only), timeout=timeout)
        except proc.ChildFailure as e:
            if e.kind != "timeout":
                raise
            count("watchdog_fired")
            try:  # re-run once alone with a much larger budget: reproduced => does not terminate
                st, val = proc.run_in_child(_pass, (plan, root, faults, observe_only), timeout=4 * timeout)
            except proc.ChildFailure as e2:
                if e2.kind != "timeout":
                    raise
                violate("I3", f"{fe}:does-not-terminate:{_fault_desc(faults, None)}", faults,
                        front_end=fe, faults=faults, note=f"no result within {4 * timeout:.0f}s, twice")
                return None
        if st == "exc":
            raise RuntimeError(f"pass child failed in harness code: {val[0]}: {val[1]}\n{val[2]}")
        res = val
        if res.get("writer_exc"):
            count("writer_exceptions_out_of_scope:" + res["writer_exc"])
        if rec is not None:
            ok_calls = {(t["site"], t["op"], t["rel"], t["nth"]) for t in rec["trace"] if t.get("outcome") == "ok"}
            for d in res["delivered"]:
                d["recorded_ok"] = (d["site"], d["op"], d["rel"], d["nth"]) in ok_calls
        desc = _fault_desc(faults, res["delivered"])
        if res["status"] == "exc":
            x = res["exc"]
            where = x.get("myst_frame") or x.get("raise_frame")
            if x["type"] == "RecursionError":  # the frame in which the limit strikes depends on the document
                where = "<recursion>"
            violate("I1", f"{fe}:{x['type']}@{where}:{desc}", faults, front_end=fe, exception=x,
                    delivered=res["delivered"], hazards=plan["hazards"],
                    traceback_tail=res.get("tb", "")[-1800:])
            return res
        if not res["doc_ok"]:
            violate("I2", f"{fe}:no-document:{desc}", faults, front_end=fe, delivered=res["delivered"],
                    detail=res.get("doc_detail"))
            return res
        return res

    # ------------------------------------------------------------------ shrinking
    def shrink(self, plan: dict):
        if plan.get("mode") != "explicit":
            return
        fps = plan["fault_plans"]
        if len(fps) > 1:
            for fp in fps:
                yield {**plan, "fault_plans": [fp]}
        if len(fps) == 1 and len(fps[0]) > 1:
            for i in range(len(fps[0])):
                yield {**plan, "fault_plans": [fps[0][:i] + fps[0][i + 1:]]}
        files = plan["files"]
        if plan["front_end"] == "docutils":
            if len(plan["parse_docs"]) > 1:
                for d in plan["parse_docs"]:
                    yield {**plan, "parse_docs": [d]}
            for rel in sorted(files):
                if rel.endswith(".md") and rel not in plan["parse_docs"]:
                    yield {**plan, "files": {k: v for k, v in files.items() if k != rel}}
        else:
            mds = sorted(k for k in files if k.endswith(".md") and k != "index.md")
            if len(mds) > 1:
                for rel in mds:
                    nf = {k: v for k, v in files.items() if k != rel}
                    nf["index.md"] = "\n".join(ln for ln in files["index.md"].split("\n") if ln.strip() != rel[:-3])
                    yield {**plan, "files": nf}
        for rel in sorted(files):
            if rel.endswith((".inc", ".inv", ".txt")) or (isinstance(files[rel], dict) and rel != "img.png"):
                yield {**plan, "files": {k: v for k, v in files.items() if k != rel}}
        for rel in sorted(files):
            v = files[rel]
            if not isinstance(v, str) or rel in ("conf.py",):
                continue
            blocks = v.split("\n\n")
            m = len(blocks)
            if m <= 1:
                continue
            step = max(1, m // 2)
            while step >= 1:
                for start in range(0, m, step):
                    keep = blocks[:start] + blocks[start + step:]
                    if len(keep) < m:
                        yield {**plan, "files": {**files, rel: "\n\n".join(keep)}}
                if step == 1:
                    break
                step //= 2
        for key in sorted(plan["cfg"]):
            yield {**plan, "cfg": {k: v for k, v in plan["cfg"].items() if k != key}}
        for key in sorted(plan["cfg"]):  # single elements of list-valued settings
            val = plan["cfg"][key]
            if isinstance(val, list) and len(val) > 1:
                for j in range(len(val)):
                    yield {**plan, "cfg": {**plan["cfg"], key: val[:j] + val[j + 1:]}}
        if plan.get("hazards"):
            yield {**plan, "hazards": []}


# ---------------------------------------------------------------------- fault-plan helpers


def _concrete(t: dict, trace: list, k: dict) -> dict:
    return {"site": t["site"], "op": t["op"], "rel": t["rel"], "nth": t["nth"], "at_call": t["i"], **k}


def _stride(items: list, cap: int) -> list:
    n = len(items)
    return [items[(j * n) // cap] for j in range(cap)]


def _resolve_pick(pick: dict, trace: list):
    if not trace:
        return None
    cls = pick["cls"]
    cands = trace
    if cls == "include":
        cands = [t for t in trace if t["site"].startswith("mocking.py")]
    elif cls == "nested":
        cands = [t for t in trace if t.get("depth", 0) >= 2]
    elif cls == "second_use":
        cands = [t for t in trace if t["nth"] >= 1]
    elif cls == "inventory":
        cands = [t for t in trace if t["site"].startswith("inventory.py")]
    elif cls == "link_probe":
        cands = [t for t in trace if t["op"] in ("stat", "lstat")]
    elif cls == "failed_before":
        cands = [t for t in trace if t.get("outcome", "ok") != "ok"]
    if not cands:
        cands = trace
    t = cands[min(len(cands) - 1, int(pick["u"] * len(cands)))]
    kinds = kinds_for(t["op"], extended=True)
    k = dict(kinds[min(len(kinds) - 1, int(pick["ku"] * len(kinds)))])
    if "frac" in k:
        k["frac"] = pick["frac"]
    if k["kind"] == "flip":
        k["xor"] = pick["xor"]
    if t["op"] == "open" and k["kind"] in ("read_eio", "torn", "flip"):
        k["bufsize"] = pick["bufsize"]
        if pick.get("max_read"):
            k["max_read"] = pick["max_read"]
    if pick.get("sticky") and k["kind"] not in CONTENT_KINDS:
        k["sticky"] = True
    return _concrete(t, trace, k)


def _with_keys(delivered, fp):
    out = []
    for d in delivered:
        f = next((x for x in fp if (x["site"], x["op"], x["rel"], x["nth"]) == (d["site"], d["op"], d["rel"], d["nth"])),
                 {})
        out.append({**d, "frac": f.get("frac")})
    return out


def _fault_desc(faults, delivered) -> str:
    if delivered:  # the last fault delivered before the failure (earlier ones were survived)
        d = delivered[-1]
        return f"fault={d['site']}/{d['op']}/{d['kind']}"
    return "fault-free"


def _inv_quiet(plan: dict) -> bool:
    """The configuration asks for inventory load failures (WARNING level, type myst.inv_retrieval) not to be shown."""
    return _suppresses_inv(plan["cfg"]) or int((plan.get("docutils_settings") or {}).get("report_level", 2)) > 2


def _suppresses_inv(cfg: dict) -> bool:
    return any(w in ("myst", "myst.inv_retrieval") for w in (cfg.get("suppress_warnings") or []))


def _trace_probes(trace, count):
    if any(t.get("depth", 0) >= 2 for t in trace):
        count("probe_nested_include_read_reached")
    if any(t.get("depth", 0) >= 4 for t in trace):
        count("probe_include_depth_4_reached")
    if any(t["nth"] >= 1 for t in trace):
        count("probe_same_path_used_twice")
    if sum(1 for t in trace if t["site"].startswith("inventory.py") and t["op"] in ("open", "urlopen")) >= 2:
        count("probe_two_or_more_inventories_loaded")
    if any(t["op"] == "urlopen" for t in trace):
        count("probe_inventory_by_url")
    if any(t.get("outcome", "ok") != "ok" for t in trace):
        count("probe_static_condition_made_a_call_fail")


def _delivery_probes(delivered, fp, count):
    for d in delivered:
        if d.get("depth", 0) >= 2:
            count("probe_fault_delivered_inside_nested_include")
        if d["nth"] >= 1:
            count("probe_fault_delivered_on_second_use_of_a_path")
        if d["site"].startswith("inventory.py"):
            count("probe_fault_delivered_on_inventory_fetch")
        if d["op"] in ("stat", "lstat"):
            count("probe_fault_delivered_on_link_probe")
    if len(delivered) >= 2:
        count("probe_two_or_more_faults_delivered_in_one_pass")
    if len(delivered) > len(fp):
        count("probe_sticky_fault_hit_a_retry_or_later_call")


# ---------------------------------------------------------------------- one pass (in a forked child)

_TAG = re.compile(r"\[(myst\.[a-z_]+)\]")
_MECH = [
    ("topmatter", re.compile(r"myst\.topmatter")),
    ("directive_option", re.compile(r"myst\.directive_option|myst\.directive_parse|option|Invalid options")),
    ("unknown_directive_or_role", re.compile(r"Unknown directive type|Unknown interpreted text role|"
                                              r"No directive entry|No role entry")),
    ("directive_error", re.compile(r"Error in \"|Directive \"|\(ERROR/3\)|\(SEVERE/4\)")),
    ("html", re.compile(r"myst\.html")),
    ("substitution", re.compile(r"myst\.substitution")),
    ("include_io", re.compile(r"Directive \"include\"|error reading file|file not found|Problems with \"include\"")),
    ("inventory", re.compile(r"myst\.inv_retrieval|myst\.iref_missing|myst\.iref_ambiguous")),
    ("xref_missing", re.compile(r"myst\.xref_missing|cross-reference target not found")),
]


@proc.normalised_recursion(1000)
def _pass(plan, root, faults, observe_only):
    from ..seams import net as netseam
    from ..seams import rand

    fe = plan["front_end"]
    clock = SimClock()
    seam = fsseam.FsSeam(root, faults, log=None, clock=clock, observe_only=observe_only)
    urls = {u: bytes.fromhex(h) for u, h in plan["urls"].items()}
    net = netseam.NetSeam(seam, urls, clock=clock)
    cfg = dict(plan["cfg"])
    if "inventories" in cfg:
        cfg["inventories"] = {k: [v[0], v[1].replace("<ROOT>", root) if v[1] else None]
                              for k, v in cfg["inventories"].items()}
    texts = {}
    for d in plan["parse_docs"]:
        with open(os.path.join(root, d), encoding="utf-8", errors="surrogateescape") as f:
            texts[d] = f.read()
    rand.install()
    clock.install()
    seam.install()
    net.install()
    status, exc, tb = "ok", None, ""
    writer_exc = None
    msgs: list[str] = []
    doc_ok, doc_detail = True, None
    try:
        try:
            if fe == "docutils":
                from docutils import nodes
                from docutils.core import publish_doctree

                from myst_parser.parsers.docutils_ import Parser

                for d in plan["parse_docs"]:
                    ws = io.StringIO()
                    ov = sut.docutils_overrides(cfg, {"warning_stream": ws,
                                                      "input_encoding_error_handler": plan["error_handler"],
                                                      **(plan.get("docutils_settings") or {})})
                    try:
                        doctree = publish_doctree(texts[d], source_path=os.path.join(root, d), parser=Parser(),
                                                  settings_overrides=ov)
                    finally:
                        msgs += [f"{d}: {ln}" for ln in sut.scrub(ws.getvalue(), root).splitlines() if ln.strip()]
                    if not isinstance(doctree, nodes.document):
                        doc_ok, doc_detail = False, f"{d}: publish_doctree returned {type(doctree).__name__}"
                        continue
                    for sm in doctree.findall(nodes.system_message):
                        msgs.append(f"{d}: <system_message level={sm.get('level')}> "
                                    + sut.scrub(sm.astext(), root)[:300])
            else:
                conf = {f"myst_{k}": v for k, v in cfg.items()
                        if k not in ("suppress_warnings", "highlight_code_blocks", "inventories")}
                if cfg.get("suppress_warnings"):
                    conf["suppress_warnings"] = list(cfg["suppress_warnings"])  # Sphinx's own setting
                r = sut.sphinx_build(root, "pass", root, conf, builder=plan["builder"], observe="resolved")
                if r[0] == "exc" and r[1].get("in_writer"):
                    # C01 is about "parse plus the standard transform pipeline ... then env.apply_post_transforms":
                    # reading and resolving were finished when the builder's writer failed on the doctree, which is
                    # the writer's (upstream) business - e.g. Sphinx's texinfo writer asserts on some section shapes
                    writer_exc = f"{r[1]['type']}@{r[1]['raise_frame']}"
                elif r[0] == "exc":
                    status, exc = "exc", r[1]
                    exc["caught_by"] = "sphinx_build"
                else:
                    outputs = r[1]
                    rerr = (r[3] or {}).get("resolve_errors") or {}
                    bad = [d for d, o in outputs.items() if (o is None or o.startswith("<no resolved doctree"))
                           and not (rerr.get(d) or {}).get("in_writer")]  # (upstream toctree adapter: out of scope)
                    for d, x in rerr.items():
                        if x.get("in_writer"):
                            writer_exc = f"{x['type']}@{x['raise_frame']}"
                    if bad:
                        doc_ok, doc_detail = False, {d: outputs[d] for d in bad[:3]}
                msgs += r[2] if isinstance(r[2], list) else []
        except BaseException as e:  # noqa: BLE001 - I1: anything that leaves the front end
            import traceback

            status, exc = "exc", sut.exc_signature(e)
            tb = sut.scrub(traceback.format_exc(limit=-14), root)
    finally:
        net.uninstall()
        seam.uninstall()
        clock.uninstall()
        shutil.rmtree(os.path.join(root, "_build"), ignore_errors=True)
    if exc is not None:
        exc["message"] = sut.scrub(exc.get("message") or "", root)
    mech: dict = {}
    for m in msgs:
        for name, rx in _MECH:
            if rx.search(m):
                mech[name] = mech.get(name, 0) + 1
    return {"status": status, "exc": exc, "tb": tb, "msgs": sorted(set(msgs)), "doc_ok": doc_ok,
            "doc_detail": doc_detail, "trace": [{k: v for k, v in t.items() if not k.startswith("_")}
                                                for t in seam.trace],
            "delivered": seam.delivered, "upstream_calls": seam.upstream_calls, "mechanisms": mech,
            "writer_exc": writer_exc}
