"""C15 engine A — histories of parse calls in one long-lived process.

The run process is forked from a pristine zygote.  While still pristine it forks one child per
distinct observation key and stores that *fresh-state reference*; only then does it execute the
planned operation list in itself, with long-lived (reused) settings, parser, renderer and config
objects, checking after every operation:

* I-EQ   the observation equals the fresh-process reference for the same key;
* I-CFG  every long-lived configuration object still equals its snapshot;
* I-REP  (implied by I-EQ: the same operation issued twice compares against one reference).
"""

from __future__ import annotations

import contextlib
import io
import os
import re
import shutil
import tempfile

from .. import sut
from ..core import proc
from ..core.eventlog import EventLog
from ..core.rng import sha, stream
from ..gen import docs as gd
from ..seams.clock import SimClock

OBSERVED = {"dparse", "mdit", "sphinx", "anchors", "inv_cli", "html5_demo", "wildcard", "cli_doc"}


class Engine:
    name = "c15_history"
    property_id = "C15"
    level = "exploration"
    fork_per_run = True
    run_timeout_s = 600
    minimise_budget_s = 150
    default_runs = {"quick": 320, "thorough": 10_000_000}
    default_budget_s = {"quick": 55, "thorough": 800}
    determinism_sample = {"quick": 12, "thorough": 48}
    rule = (
        "one run = one seeded history: a generated project (documents, include files, inventory), 1-4 "
        "configurations and 6-24 operations (docutils parses to doctree/HTML with fresh or long-lived reused "
        "settings and Parser objects, markdown-it renderer objects kept alive across documents, in-process Sphinx "
        "builds, CLI entry points, regex-cache bursts, aborted parses, mutation of returned objects, file edits) "
        "executed in one process forked from a pristine zygote; every observation is compared with the same "
        "operation executed first in a pristine process; an evaluation is one compared operation; non-trivial = "
        "the operation ran after at least one other operation in the same process; distinct = distinct "
        "(history-prefix digest, operation key) pairs"
    )
    assumptions = [
        "amsmath labels come from the simulator-owned label source (uuid4, interposed beneath the repository's _random_label, which stays real code): a literal "
        "'identical when parsed repeatedly' is false by design for numbered amsmath blocks (uuid4)",
        "upstream process-global state is kept out of the workload: language_code=en, report_level>=2, no 'role' / "
        "'default-role' directives, project-unique explicit labels and equation labels, substitution templates "
        "never call mutating methods on env (DESIGN §5.6)",
        "a caller that mutates the settings object it passes in is changing the configuration; only mutations made "
        "by the parser itself count against I-CFG",
        "reference model = the real code in a pristine process: a change that alters fresh-state and history "
        "output alike is invisible by construction",
    ]
    real_vs_stub = {
        "real": ["all of myst_parser", "markdown-it-py + plugins", "docutils publisher/transforms/writers",
                 "Sphinx application/environment/builders (serial)", "PyYAML, Jinja2, Pygments",
                 "the file system under the scratch project"],
        "stub": ["amsmath label source (uuid4 beneath SphinxRenderer._random_label)", "time.time/time_ns/monotonic (simulated clock)"],
        "reference_model": "the same real code, each operation executed first in a pristine forked process",
    }

    def prepare(self):
        import docutils.core  # noqa: F401
        import docutils.writers.html5_polyglot  # noqa: F401
        import sphinx.application  # noqa: F401
        import sphinx.builders.xml  # noqa: F401

        import myst_parser.inventory  # noqa: F401
        import myst_parser.parsers.docutils_  # noqa: F401
        import myst_parser.parsers.sphinx_  # noqa: F401
        import myst_parser.sphinx_ext.main  # noqa: F401

    # ------------------------------------------------------------------ planning (pure)
    def plan(self, seed_run: int, tier: str) -> dict:
        g = stream(seed_run, "gen")
        o = stream(seed_run, "ops")
        features = None
        if g.random() < 0.5:  # swarm: a random subset of block kinds / inline kinds
            features = sorted(g.sample(gd.ALL_FEATURES, k=g.randint(6, len(gd.ALL_FEATURES) - 1)))
            for must in ("para", "heading"):
                if must not in features:
                    features.append(must)
        proj = gd.gen_project(g, n_docs=g.randint(2, 5), front_end="docutils", features=features,
                              n_blocks=g.choice([3, 5, 8, 12]))
        docs = [d + ".md" for d in proj["docs"]]
        configs = {"c0": proj["cfg"]}
        for i in range(1, g.choice([1, 2, 3, 4])):
            configs[f"c{i}"] = gd.gen_config(g, "docutils")
        for cid, cfg in configs.items():
            if g.random() < 0.5:
                # the same local file under different base URLs / keys in different configurations
                cfg["inventories"] = g.choice([
                    {"key": ["https://inv.example/", "<ROOT>/objects.inv"]},
                    {"key": ["https://inv.example/", "<ROOT>/objects.inv"]},
                    {"key": ["https://other.example/en/stable/", "<ROOT>/objects.inv"]},
                    {"key": ["https://inv.example/v2", "<ROOT>/objects.inv"],
                     "second": ["https://second.example/", "<ROOT>/objects.inv"]},
                    {"other": ["https://inv.example/", "<ROOT>/objects.inv"]},
                ])
        cids = sorted(configs)
        settings_objs = {f"s{i}": {"cfg": o.choice(cids), "writer": o.choice([None, None, "html5"])}
                         for i in range(o.choice([1, 2, 3]))}
        parsers = ["p0", "p1"]
        mds = {f"m{i}": o.choice(cids) for i in range(o.choice([1, 2]))}
        ops = []
        sphinx_shared_cfg = o.choice(cids)
        sphinx_shared_extra = o.choice([
            {}, {"mathjax3_config": {"options": {"processHtmlClass": "custom-class"}}},
            {"mathjax3_config": {"tex": {"macros": {"RR": "\\mathbb{R}"}}}},
            {"myst_update_mathjax": False, "mathjax3_config": {"options": {"processHtmlClass": "custom-class"}}},
            {"html_theme_options": {}, "myst_heading_anchors": 2}])
        n_ops = o.choice([6, 10, 16, 24])
        sphinx_ops = 0
        max_sphinx = o.choice([2, 2, 3])
        for _ in range(n_ops):
            k = o.random()
            doc = o.choice(docs)
            if k < 0.42:
                reuse = o.choice(sorted(settings_objs)) if o.random() < 0.55 else None
                op = {"op": "dparse", "doc": doc,
                      "cfg": settings_objs[reuse]["cfg"] if reuse else o.choice(cids),
                      "reuse": reuse, "parser": o.choice(parsers) if o.random() < 0.4 else None,
                      "writer": settings_objs[reuse]["writer"] if reuse else o.choice([None, None, None, "html5"])}
                ops.append(op)
                if o.random() < 0.12:
                    ops.append(dict(op))  # the same operation twice in a row (I-REP)
            elif k < 0.54:
                m = o.choice(sorted(mds))
                ops.append({"op": "mdit", "doc": doc, "md": m, "cfg": mds[m]})
            elif k < 0.62 and sphinx_ops < max_sphinx:
                sphinx_ops += 1
                op = {"op": "sphinx", "cfg": o.choice(cids), "builder": o.choice(["xml", "xml", "html"])}
                if o.random() < 0.5:
                    # the caller keeps ONE confoverrides mapping (with nested dict values) and passes it to every
                    # build, as a test-suite or an auto-rebuild loop does: "when the configuration object is reused"
                    op["shared_conf"] = "k0"
                    op["cfg"] = sphinx_shared_cfg
                    op["extra_conf"] = sphinx_shared_extra
                ops.append(op)
            elif k < 0.67:
                ops.append({"op": "anchors", "doc": doc, "level": o.choice([1, 2, 6])})
            elif k < 0.71:
                ops.append({"op": "inv_cli", "args": o.choice([[], ["-d", "py"], ["-n", "foo*"], ["-f", "json"],
                                                                ["-o", "label", "-l", "*.html*"]])})
            elif k < 0.755:
                ops.append({"op": "html5_demo", "doc": doc, "opts": o.choice([
                    {}, {}, {"myst_enable_extensions": ["deflist", "colon_fence", "substitution", "smartquotes"]},
                    {"myst_heading_anchors": 2}, {"myst_substitutions": {"key1": "demo value"}},
                    {"myst_footnote_sort": False, "myst_title_to_header": True}])})
            elif k < 0.79:
                # the myst-docutils-* command-line entry points, called several times in one process
                ops.append({"op": "cli_doc", "doc": doc, "writer": o.choice(["pseudoxml", "xml", "html5", "html5_demo"]),
                            "flags": o.choice([[], ["--myst-heading-anchors=2"], ["--myst-enable-extensions=deflist,dollarmath"],
                                               ["--myst-footnote-sort=no", "--myst-heading-anchors=3"],
                                               ["--myst-suppress-warnings=myst.header"]])})
            elif k < 0.84:
                ops.append({"op": "wildcard", "n": o.choice([10, 260, 300, 520]), "salt": o.randint(0, 3)})
            elif k < 0.90:
                reuse = o.choice(sorted(settings_objs)) if o.random() < 0.6 else None
                ops.append({"op": "aborted", "cfg": settings_objs[reuse]["cfg"] if reuse else o.choice(cids),
                            "reuse": reuse, "parser": o.choice(parsers) if o.random() < 0.4 else None,
                            "body": o.choice(ABORT_BODIES)})
            elif k < 0.925:
                # crash at an arbitrary point: an operation is cut short by KeyboardInterrupt at its n-th I/O call
                if o.random() < 0.7:
                    reuse = o.choice(sorted(settings_objs)) if o.random() < 0.6 else None
                    ops.append({"op": "interrupted", "what": "dparse", "doc": doc, "at": o.choice([0, 0, 1, 2, 4]),
                                "cfg": settings_objs[reuse]["cfg"] if reuse else o.choice(cids), "reuse": reuse,
                                "parser": o.choice(parsers) if o.random() < 0.4 else None})
                else:
                    ops.append({"op": "interrupted", "what": "sphinx", "at": o.choice([0, 1, 3, 6]),
                                "cfg": o.choice(cids), "builder": "xml"})
            elif k < 0.94:
                ops.append({"op": "mutate_returned", "how": o.choice(["clear_tree", "cfg_as_dict", "slugs", "ids"])})
            else:
                f = o.choice(proj["includes"] + ["objects.inv"])
                if f == "objects.inv":
                    from ..gen import inventory as gi

                    spec = gi.gen_spec(g, max_objects=6)
                    spec.update(version=2, project="edited", pversion="9")
                    spec["lines"] += ["index std:label -1 edited.html#$ Edited Index", "foo py:function 1 new.html#$ -"]
                    content = {"hex": gi.serialise(spec)[0].hex()}
                else:
                    content = gd.gen_include_file(g, gd.Ctx("edit", proj["docs"], [], [], proj["cfg"].get(
                        "enable_extensions", ()), "docutils", proj["inv_keys"], features))
                ops.append({"op": "edit", "file": f, "content": content})
        if o.random() < 0.2 and any("inventories" in c for c in configs.values()):
            # an inventory file changes between two renders of one document with one long-lived renderer / settings
            from ..gen import inventory as gi

            cid = o.choice([c for c in cids if "inventories" in configs[c]])
            doc = o.choice(docs)
            key = sorted(configs[cid]["inventories"])[0]
            proj["files"][doc] = proj["files"][doc].rstrip("\n") + f"\n\n<inv:{key}#index> <inv:{key}#foo> <inv:#Class>\n"
            spec = gi.gen_spec(g, max_objects=4)
            spec.update(version=2, project="edited2", pversion="2")
            spec["lines"] += ["index std:label -1 moved.html#$ Moved Index"]
            mid = sorted(mds)[0]
            mds[mid] = cid
            scen = [{"op": "mdit", "doc": doc, "md": mid, "cfg": cid},
                    {"op": "edit", "file": "objects.inv", "content": {"hex": gi.serialise(spec)[0].hex()}},
                    {"op": "mdit", "doc": doc, "md": mid, "cfg": cid},
                    {"op": "dparse", "doc": doc, "cfg": cid, "reuse": None, "parser": None, "writer": None}]
            ops = [x for x in ops if not (x["op"] == "mdit" and x.get("md") == mid)]  # the renderer belongs to cid now
            at = o.randint(0, len(ops))
            ops[at:at] = scen
        return {"engine": self.name, "files": proj["files"], "configs": configs, "settings_objs": settings_objs,
                "ops": ops}

    def plan_size(self, plan) -> dict:
        return {"ops": len(plan["ops"]), "files": len(plan["files"]),
                "chars": sum(len(v) for v in plan["files"].values() if isinstance(v, str))}

    # ------------------------------------------------------------------ execution
    @proc.normalised_recursion(1000)
    def execute(self, plan: dict) -> dict:
        from ..seams import rand

        clock = SimClock()
        log = EventLog(clock=clock)
        ctr: dict = {}
        violations: list = []
        nontrivial: set = set()

        def count(name, n=1):
            ctr[name] = ctr.get(name, 0) + n

        root = tempfile.mkdtemp(prefix="run-", dir=os.environ.get("MYSTSIM_SCRATCH") or None)
        try:
            sut.write_tree(root, plan["files"])
            clock.install()
            rand.install()
            ops = plan["ops"]
            log.add("plan", ops=len(ops), files=sha(repr(sorted(plan["files"].items(), key=lambda kv: kv[0])))[:16])

            # ---- phase 1: fresh-state references (this process stays pristine: it only forks)
            files = dict(plan["files"])
            refs: dict = {}
            keys: list = []
            for i, op in enumerate(ops):
                if op["op"] == "edit":
                    files[op["file"]] = op["content"]
                    sut.write_tree(root, {op["file"]: op["content"]})
                    keys.append(None)
                    continue
                if op["op"] not in OBSERVED:
                    keys.append(None)
                    continue
                key = _op_key(op, plan, files)
                keys.append(key)
                if key in refs:
                    count("reference_memo_hits")
                    continue
                st, val = proc.run_in_child(_observe_fresh, (op, plan, root, i), timeout=240)
                if st == "exc":
                    raise RuntimeError(f"reference child failed in harness code: {val}")
                refs[key] = val
                count("references_computed")
                log.add("ref", i=i, key=key[:16], sha256=sha(repr(val))[:16])
            # restore the initial file-system state
            sut.write_tree(root, plan["files"])

            # ---- phase 2: the history, in this process
            state = _State(plan, root)
            hist = sha("start")
            evals = 0
            for i, op in enumerate(ops):
                kind = op["op"]
                count("ops:" + kind)
                log.add("op", i=i, op=kind, doc=op.get("doc"), reuse=op.get("reuse"), parser=op.get("parser"))
                if kind == "edit":
                    sut.write_tree(root, {op["file"]: op["content"]})
                    hist = sha(hist + "edit" + op["file"])
                    continue
                obs = state.run(op, i)
                _probes(op, state, count, plan)
                if kind in OBSERVED:
                    evals += 1
                    exp = refs[keys[i]]
                    log.add("obs", i=i, key=keys[i][:16], sha256=sha(repr(obs))[:16])
                    if i > 0:
                        nontrivial.add(sha(hist + keys[i])[:16])
                    if obs != exp:
                        ch, detail = _classify_diff(kind, exp, obs)
                        violations.append({"invariant": "I-EQ", "signature": f"{self.name}/I-EQ/{ch}",
                                           "detail": {"step": i, "op": _brief(op), **detail}})
                        break
                bad = state.check_configs()
                if bad:
                    violations.append({"invariant": "I-CFG",
                                       "signature": f"{self.name}/I-CFG/{bad['object_kind']}:{'+'.join(bad['fields'])}",
                                       "detail": {"step": i, "op": _brief(op), **bad}})
                    break
                hist = sha(hist + (keys[i] or kind + repr(_brief(op))))
            log.add("end", evals=evals, violations=len(violations))
        finally:
            clock.uninstall()
            shutil.rmtree(root, ignore_errors=True)
        return {
            "evals": evals, "digest": log.digest(), "nontrivial": sorted(nontrivial), "counters": ctr,
            "violations": violations[:1], "sim_us": clock.now_us(),
            "fault_free": not any(o["op"] in ("aborted", "interrupted") for o in ops),
            "sample": {"ops": [_brief(o) for o in ops], "files": sorted(plan["files"]),
                       "configs": plan["configs"], "settings_objs": plan["settings_objs"]},
        }

    # ------------------------------------------------------------------ shrinking
    def shrink(self, plan: dict):
        ops = plan["ops"]
        n = len(ops)
        step = max(1, n // 2)
        while step >= 1 and n > 1:
            for start in range(0, n, step):
                keep = ops[:start] + ops[start + step:]
                if keep and len(keep) < n:
                    yield {**plan, "ops": keep}
            if step == 1:
                break
            step //= 2
        # simplify op flags
        for i, op in enumerate(ops):
            for key, val in (("parser", None), ("writer", None)):
                if op.get(key) not in (None, val) and not op.get("reuse"):
                    yield {**plan, "ops": ops[:i] + [{**op, key: val}] + ops[i + 1:]}
        # drop unreferenced files, then blocks of the remaining text files
        used = {o.get("doc") for o in ops} | {o.get("file") for o in ops}
        has_sphinx = any(o["op"] == "sphinx" for o in ops)
        files = plan["files"]
        if not has_sphinx:
            for rel in sorted(files):
                if rel.endswith(".md") and rel not in used:
                    yield {**plan, "files": {k: v for k, v in files.items() if k != rel}}
        for rel in sorted(files):
            v = files[rel]
            if not isinstance(v, str) or rel == "conf.py":
                continue
            blocks = v.split("\n\n")
            if len(blocks) <= 1:
                continue
            m = len(blocks)
            step = max(1, m // 2)
            while step >= 1:
                for start in range(0, m, step):
                    keep = blocks[:start] + blocks[start + step:]
                    if len(keep) < m:
                        yield {**plan, "files": {**files, rel: "\n\n".join(keep)}}
                if step == 1:
                    break
                step //= 2
        # simpler configurations
        for cid, cfg in plan["configs"].items():
            for key in sorted(cfg):
                if key == "inventories":
                    continue
                yield {**plan, "configs": {**plan["configs"], cid: {k: v for k, v in cfg.items() if k != key}}}
            for key in sorted(cfg):
                val = cfg[key]
                if isinstance(val, list) and len(val) > 1:
                    for j in range(len(val)):
                        yield {**plan, "configs": {**plan["configs"], cid: {**cfg, key: val[:j] + val[j + 1:]}}}


ABORT_BODIES = [
    "# T\n\n```{include} does-not-exist.inc\n```\n\nafter\n",
    "---\nmyst:\n  footnote_sort: false\n  enable_extensions: [deflist]\n---\n\n# T\n\n> ```{include} nope.inc\n> ```\n",
    "# T\n\n````{note}\n```{include} nope.inc\n:heading-offset: 1\n```\n````\n\n{{ key1 }}\n",
    "# T\n\n```{figure-md}\n![a](img.png)\n\ncap\n```\n\n```{include} nope.inc\n```\n",
]


# ---------------------------------------------------------------------- operation execution


def _resolve_cfg(cfg: dict, root: str) -> dict:
    out = {}
    for k, v in cfg.items():
        if k == "inventories":
            v = {kk: [vv[0], vv[1].replace("<ROOT>", root) if vv[1] else vv[1]] for kk, vv in v.items()}
        out[k] = v
    return out


def make_settings(overrides: dict, writer: str | None):
    """A docutils settings object built the way ``publish_*`` builds one, for callers that reuse it."""
    from docutils.core import Publisher

    from myst_parser.parsers.docutils_ import Parser

    pub = Publisher(parser=Parser())
    pub.set_components("standalone", None, writer or "null")
    return pub.get_settings(**overrides)


class _State:
    """The long-lived objects of one history."""

    def __init__(self, plan, root):
        self.plan = plan
        self.root = root
        self.settings: dict = {}
        self.settings_snap: dict = {}
        self.parsers: dict = {}
        self.mds: dict = {}
        self.md_cfg: dict = {}
        self.md_cfg_snap: dict = {}
        self.last_doctree = None
        self.last_cfg_obj = None
        self.sphinx_cfg_diff = None
        self.shared_conf: dict = {}
        self.shared_conf_snap: dict = {}
        self.live_cfgs: dict = {}
        self.live_cfg_snap: dict = {}
        self.seen_ops: list = []

    def cfg(self, cid):
        """The caller's configuration mapping ``cid``: ONE object per history, handed to every operation that uses
        it (a caller that keeps a settings_overrides / conf dict around) - and never the plan's own data, which
        must stay what was planned (a replay re-executes it)."""
        if cid not in self.live_cfgs:
            import copy

            self.live_cfgs[cid] = _resolve_cfg(copy.deepcopy(self.plan["configs"][cid]), self.root)
            self.live_cfg_snap[cid] = sut.plain(copy.deepcopy(self.live_cfgs[cid]))
        return self.live_cfgs[cid]

    def get_settings(self, sid, extra=None):
        if sid not in self.settings:
            from myst_parser.parsers.docutils_ import create_myst_config

            so = self.plan["settings_objs"][sid]
            s = make_settings(sut.docutils_overrides(self.cfg(so["cfg"]), extra), so["writer"])
            self.settings[sid] = s
            try:
                self.settings_snap[sid] = sut.plain(create_myst_config(s).as_dict())
            except Exception as e:  # noqa: BLE001
                self.settings_snap[sid] = f"invalid: {type(e).__name__}"
        return self.settings[sid]

    def get_parser(self, pid):
        from myst_parser.parsers.docutils_ import Parser

        if pid is None:
            return Parser()
        if pid not in self.parsers:
            self.parsers[pid] = Parser()
        return self.parsers[pid]

    def run(self, op, i):
        self.seen_ops.append(op)
        fresh = False
        return _run_op(op, self.plan, self.root, i, self, fresh)

    def check_configs(self):
        from myst_parser.parsers.docutils_ import create_myst_config

        for sid, s in self.settings.items():
            try:
                now = sut.plain(create_myst_config(s).as_dict())
            except Exception as e:  # noqa: BLE001
                now = f"invalid: {type(e).__name__}"
            snap = self.settings_snap[sid]
            if now != snap:
                fields = _diff_fields(snap, now)
                return {"object_kind": "reused-docutils-settings", "object": sid, "fields": fields,
                        "before": {f: snap.get(f) for f in fields} if isinstance(snap, dict) else snap,
                        "after": {f: now.get(f) for f in fields} if isinstance(now, dict) else now}
        for mid, cfg in self.md_cfg.items():
            now = sut.plain(cfg.as_dict())
            snap = self.md_cfg_snap[mid]
            if now != snap:
                fields = _diff_fields(snap, now)
                return {"object_kind": "reused-MdParserConfig", "object": mid, "fields": fields,
                        "before": {f: snap.get(f) for f in fields}, "after": {f: now.get(f) for f in fields}}
        if self.sphinx_cfg_diff:
            d, self.sphinx_cfg_diff = self.sphinx_cfg_diff, None
            return d
        for cid, cfg in self.live_cfgs.items():
            now = sut.plain(cfg)
            snap = self.live_cfg_snap[cid]
            if now != snap:
                fields = _diff_fields(snap, now)
                return {"object_kind": "reused-config-mapping", "object": cid, "fields": fields,
                        "before": {f: snap.get(f) for f in fields}, "after": {f: now.get(f) for f in fields}}
        for key, conf in self.shared_conf.items():
            now = sut.plain(conf)
            snap = self.shared_conf_snap[key]
            if now != snap:
                fields = _diff_fields(snap, now)
                return {"object_kind": "reused-sphinx-confoverrides", "object": key, "fields": fields,
                        "before": {f: snap.get(f) for f in fields}, "after": {f: now.get(f) for f in fields}}
        return None


def _diff_fields(a, b):
    if not (isinstance(a, dict) and isinstance(b, dict)):
        return ["<validity>"]
    return sorted(k for k in set(a) | set(b) if a.get(k) != b.get(k))


def _observe_fresh(op, plan, root, i):
    """Reference: the operation executed first in a pristine process, all objects fresh."""
    return _run_op(op, plan, root, i, _State(plan, root), True)


def _read(root, rel):
    with open(os.path.join(root, rel), encoding="utf-8", errors="surrogateescape") as f:
        return f.read()


def _run_op(op, plan, root, i, state: _State, fresh: bool):  # noqa: C901
    kind = op["op"]
    if kind == "dparse":
        text = _read(root, op["doc"])
        path = os.path.join(root, op["doc"])
        parser = state.get_parser(None if fresh else op.get("parser"))
        if op.get("reuse"):
            # the reference builds a brand-new settings object the same way; the history reuses one
            if fresh:
                so = plan["settings_objs"][op["reuse"]]
                settings = make_settings(sut.docutils_overrides(state.cfg(so["cfg"])),
                                         so["writer"])
            else:
                settings = state.get_settings(op["reuse"])
            r = sut.docutils_parse(text, path, root, settings=settings, parser=parser, writer=op.get("writer"))
        else:
            ov = sut.docutils_overrides(state.cfg(op["cfg"]))
            r = sut.docutils_parse(text, path, root, overrides=ov, parser=parser, writer=op.get("writer"))
        state.last_doctree = r[3]
        return r[:3]
    if kind == "aborted":
        path = os.path.join(root, "aborted.md")
        parser = state.get_parser(None if fresh else op.get("parser"))
        if op.get("reuse") and not fresh:
            settings = state.get_settings(op["reuse"])
            old = settings.halt_level
            settings.halt_level = 4  # the caller's own choice for this call; restored by the caller
            try:
                r = sut.docutils_parse(op["body"], path, root, settings=settings, parser=parser)
            finally:
                settings.halt_level = old
        else:
            ov = sut.docutils_overrides(state.cfg(op["cfg"]), {"halt_level": 4})
            r = sut.docutils_parse(op["body"], path, root, overrides=ov, parser=parser)
        return ("aborted", r[0])
    if kind == "interrupted":
        from ..seams.fs import FsSeam

        seam = FsSeam(root, [], interrupt_at=op["at"])
        seam.install()
        try:
            try:
                inner = {**op, "op": op["what"], "writer": None}
                _run_op(inner, plan, root, i, state, fresh)
            except KeyboardInterrupt:
                pass
        finally:
            seam.uninstall()
        state.interrupt_delivered = seam.interrupted
        return ("interrupted", seam.interrupted)
    if kind == "mdit":
        from docutils.frontend import get_default_settings
        from docutils.utils import new_document

        from myst_parser.config.main import MdParserConfig
        from myst_parser.mdit_to_docutils.base import DocutilsRenderer
        from myst_parser.parsers.docutils_ import Parser
        from myst_parser.parsers.mdit import create_md_parser

        mid = op["md"]
        if fresh or mid not in state.mds:
            try:
                cfg = MdParserConfig(**state.cfg(op["cfg"]))
            except Exception as e:  # noqa: BLE001
                return ("exc", {"type": type(e).__name__, "where": "MdParserConfig"}, "")
            md = create_md_parser(cfg, DocutilsRenderer)
            if not fresh:
                state.mds[mid] = md
                state.md_cfg[mid] = cfg
                state.md_cfg_snap[mid] = sut.plain(cfg.as_dict())
        else:
            md = state.mds[mid]
        ws = io.StringIO()
        settings = get_default_settings(Parser)
        settings.update({"report_level": 2, "halt_level": 5, "warning_stream": ws, "language_code": "en"},
                        sut._OptParserShim())
        doc = new_document(os.path.join(root, op["doc"]), settings)
        md.options["document"] = doc
        try:
            md.render(_read(root, op["doc"]))
            out = sut.canon_sets(sut.scrub(doc.pformat(), root))
        except Exception as e:  # noqa: BLE001
            return ("exc", sut.exc_signature(e), sut.canon_sets(sut.scrub(ws.getvalue(), root)))
        finally:
            md.options.pop("document", None)
        state.last_doctree = doc
        return ("ok", out, sut.canon_sets(sut.scrub(ws.getvalue(), root)))
    if kind == "sphinx":
        cfg = {k: v for k, v in state.cfg(op["cfg"]).items()
               if k not in ("suppress_warnings", "highlight_code_blocks", "inventories")}
        conf = {f"myst_{k}": v for k, v in cfg.items()}
        conf.update(op.get("extra_conf") or {})
        if op.get("shared_conf") and not fresh:
            import copy

            key = op["shared_conf"]
            if key not in state.shared_conf:
                state.shared_conf[key] = copy.deepcopy(conf)
                state.shared_conf_snap[key] = sut.plain(copy.deepcopy(conf))
            conf = state.shared_conf[key]
        # html builds run the HTML writer (part of the history) but are observed through the resolved
        # doctrees; xml builds are observed through the written files (the doctree, serialised)
        try:
            r = sut.sphinx_build(root, f"{'ref' if fresh else 'op'}{i}", root, conf, builder=op["builder"],
                                 observe="resolved" if op["builder"] == "html" else "written",
                                 share_confoverrides=bool(op.get("shared_conf")) and not fresh)
        except BaseException:  # an interrupted build: leave no output behind
            shutil.rmtree(os.path.join(root, "_build"), ignore_errors=True)
            raise
        ex = r[3]
        if not fresh and ex.get("cfg_before") != ex.get("cfg_after") and r[0] == "ok":
            fields = _diff_fields(ex["cfg_before"], ex["cfg_after"])
            state.sphinx_cfg_diff = {"object_kind": "sphinx-global-config", "object": "app", "fields": fields,
                                     "before": {f: ex["cfg_before"].get(f) for f in fields},
                                     "after": {f: ex["cfg_after"].get(f) for f in fields}}
        shutil.rmtree(os.path.join(root, "_build"), ignore_errors=True)
        return r[:3]
    if kind == "anchors":
        from myst_parser.cli import print_anchors

        buf = io.StringIO()
        try:
            with contextlib.redirect_stdout(buf):
                print_anchors(["-l", str(op["level"]), os.path.join(root, op["doc"])])
        except (Exception, SystemExit) as e:  # noqa: BLE001
            return ("exc", type(e).__name__, buf.getvalue())
        return ("ok", buf.getvalue())
    if kind == "inv_cli":
        from myst_parser.inventory import inventory_cli

        buf = io.StringIO()
        try:
            with contextlib.redirect_stdout(buf), contextlib.redirect_stderr(io.StringIO()):
                inventory_cli([os.path.join(root, "objects.inv"), *op["args"]])
        except (Exception, SystemExit) as e:  # noqa: BLE001
            return ("exc", type(e).__name__, buf.getvalue())
        return ("ok", buf.getvalue())
    if kind == "cli_doc":
        from myst_parser.parsers import docutils_ as md

        outdir = os.path.join(root, "_cli")
        os.makedirs(outdir, exist_ok=True)
        dest, warn = os.path.join(outdir, f"out{i}{'f' if fresh else 'h'}"), os.path.join(outdir, f"warn{i}{'f' if fresh else 'h'}")
        argv = ["--halt=5", "--report=2", "--traceback", f"--warnings={warn}", *op["flags"],
                os.path.join(root, op["doc"]), dest]
        old_conf = os.environ.get("DOCUTILSCONFIG")
        os.environ["DOCUTILSCONFIG"] = os.devnull  # no site/user configuration files
        status = "ok"
        try:
            try:
                with contextlib.redirect_stdout(io.StringIO()), contextlib.redirect_stderr(io.StringIO()):
                    getattr(md, "cli_" + op["writer"])(argv)
            except SystemExit as e:
                status = f"exit:{e.code}"
            except Exception as e:  # noqa: BLE001
                status = "exc:" + type(e).__name__
        finally:
            if old_conf is None:
                os.environ.pop("DOCUTILSCONFIG", None)
            else:
                os.environ["DOCUTILSCONFIG"] = old_conf
        out = _read(root, os.path.relpath(dest, root)) if os.path.exists(dest) else None
        wtext = _read(root, os.path.relpath(warn, root)) if os.path.exists(warn) else ""
        shutil.rmtree(outdir, ignore_errors=True)
        if op["writer"] in ("html5", "html5_demo"):
            out = _html_obs(out, root, _read(root, op["doc"])) if out is not None else None  # docutils' HTML writer has process-global state of its own (see html5_demo)
        else:
            out = sut.canon_sets(sut.scrub(out, root)) if out is not None else None
        return (status, out, sut.canon_sets(sut.scrub(wtext, root)))
    if kind == "html5_demo":
        from myst_parser.parsers.docutils_ import to_html5_demo

        ws = io.StringIO()
        try:
            out = to_html5_demo(_read(root, op["doc"]), warning_stream=ws, halt_level=5, report_level=2,
                                _disable_config=True, **(op.get("opts") or {}))
        except Exception as e:  # noqa: BLE001
            return ("exc", sut.exc_signature(e), sut.scrub(ws.getvalue(), root))
        # the HTML string itself is not compared: the property speaks about doctree and warnings, and
        # docutils' HTML writer has process-global state of its own (HTMLTranslator.math_tags is mutated
        # when a math node carries classes) that would make any parser's output history-dependent
        # ... so the string is compared only when it has no math in it
        return ("ok", _html_obs(out, root, _read(root, op["doc"])), sut.canon_sets(sut.scrub(ws.getvalue(), root)))
    if kind == "wildcard":
        from myst_parser.inventory import _create_regex, match_with_wildcard

        names = ["foo", "foobar", "p1x", "a*b", "a\\b", "", "index", "p10", "P1", "x.y.z"]
        fixed = ["foo*", "*", "a\\*b", "p1*", "*.z", "p1", "P1", "a\\b", "", "f?o"]
        res = [match_with_wildcard(n, p) for p in fixed for n in names]
        burst = [f"p{op['salt']}{j}*" for j in range(op["n"])]
        for p in burst:
            res.append(match_with_wildcard("p" + str(op["salt"]) + "7x", p))
        res += [match_with_wildcard(n, p) for p in fixed for n in names]  # re-ask after the burst
        if not fresh:
            state.lru = _create_regex.cache_info()
        return ("ok", res)
    if kind == "mutate_returned":
        how = op["how"]
        dt = state.last_doctree
        if how == "clear_tree" and dt is not None:
            dt.children.clear()
            dt.attributes.clear()
        elif how == "slugs" and dt is not None:
            getattr(dt, "myst_slugs", {}).clear()
            if hasattr(dt, "myst_slugs"):
                dt.myst_slugs["poison"] = (1, "poison", "poison")
        elif how == "ids" and dt is not None:
            dt.ids.clear()
            dt.nameids["poison"] = "poison"
        elif how == "cfg_as_dict":
            for cfg in state.md_cfg.values():
                d = cfg.as_dict()
                for v in d.values():
                    if isinstance(v, set):
                        v.add("poison")
                    elif isinstance(v, dict):
                        v["poison"] = "poison"
                    elif isinstance(v, list):
                        v.append("poison")
        return None
    raise ValueError(kind)


def _html_obs(html: str, root: str, src: str | None = None):
    """The HTML string when it contains no math (docutils' HTML writer keeps process-global math state), else True."""
    if src is None or any(t in src for t in ("math", "$", "\\begin{", "\\[", "\\(")) or "math" in html.lower() or (
            "formula" in html):
        return True
    body = _html_body(html)
    return sut.canon_sets(sut.scrub(body, root))


_BODY_RE = re.compile(r"<body.*?</body>", re.S)


def _html_body(html):
    if html is None:
        return None
    m = _BODY_RE.search(html)
    return m.group(0) if m else html


# ---------------------------------------------------------------------- keys, probes, diffs


def _op_key(op, plan, files) -> str:
    desc = {k: v for k, v in op.items() if k not in ("parser",)}
    if op.get("reuse"):
        desc["reuse"] = plan["settings_objs"][op["reuse"]]
    if "cfg" in op:
        desc["cfg"] = plan["configs"][op["cfg"]]
    if "md" in op:
        desc.pop("md")
    fs = sorted((k, v if isinstance(v, str) else repr(v)) for k, v in files.items())
    return sha(repr(sorted(desc.items(), key=lambda kv: kv[0])) + sha(repr(fs)))


def _brief(op):
    return {k: (v if not isinstance(v, (str, dict)) or len(repr(v)) < 80 else repr(v)[:77] + "...")
            for k, v in op.items()}


_INC_MYST = re.compile(r"\{include\}")
_INC_RST = re.compile(r"\.\. include::")
_FM_OVERRIDE = re.compile(r"^---\n(?:.*\n)*?myst:", re.M)


def _probes(op, state: _State, count, plan):
    """Opportunity probes (DESIGN §5.4): conditions under which known leak channels can show."""
    kind = op["op"]
    prev = state.seen_ops[:-1]
    if kind in ("dparse", "mdit"):
        text = _text_of(plan, op["doc"], state)
        if _INC_RST.search(text) and any(_has(plan, p, _INC_MYST, state) for p in prev):
            count("probe_evalrst_include_after_myst_include")
        if op.get("reuse") and any(p.get("reuse") == op["reuse"] and _has(plan, p, _FM_OVERRIDE, state)
                                   for p in prev):
            count("probe_reused_settings_after_front_matter_override")
        if op.get("parser") and any(p.get("parser") == op["parser"] for p in prev):
            count("probe_reused_parser_instance")
        if kind == "mdit" and any(p.get("md") == op["md"] for p in prev):
            count("probe_reused_renderer_object")
        if any(p["op"] == "aborted" for p in prev):
            count("probe_compared_parse_after_aborted_parse")
        if any(p["op"] == "interrupted" for p in prev):
            count("probe_compared_parse_after_interrupted_operation")
        if any(p["op"] == "sphinx" for p in prev):
            count("probe_docutils_parse_after_sphinx_build")
        if any(p["op"] == "edit" for p in prev):
            count("probe_parse_after_file_edit")
        if any(p["op"] == "mutate_returned" for p in prev):
            count("probe_parse_after_mutation_of_returned_object")
    if kind == "interrupted" and getattr(state, "interrupt_delivered", False):
        count("probe_interrupt_delivered_at_an_io_call")
    if kind == "sphinx" and prev:
        count("probe_sphinx_build_after_other_ops")
    if kind == "sphinx" and op.get("shared_conf") and any(p.get("shared_conf") == op["shared_conf"] for p in prev):
        count("probe_sphinx_build_with_reused_confoverrides")
    if kind == "wildcard":
        info = getattr(state, "lru", None)
        if info is not None and info.currsize >= 256:
            count("probe_lru_cache_full_eviction_occurred")


def _text_of(plan, rel, state):
    try:
        return _read(state.root, rel)
    except OSError:
        return ""


def _has(plan, op, rx, state):
    if op["op"] == "aborted":
        return bool(rx.search(op["body"]))
    if "doc" not in op:
        return False
    return bool(rx.search(_text_of(plan, op["doc"], state)))


_NUM = re.compile(r"\d+")


def _norm(line: str) -> str:
    line = re.sub(r"<ROOT>/[\w./-]+", "P", line)
    line = re.sub(r"'[^']{0,60}'", "Q", line)  # quoted names (documents, ids, labels) are workload-specific
    return _NUM.sub("N", line).strip()[:90]


def _classify_diff(kind, exp, obs):
    """Channel of a divergence, derived from the observations only."""
    detail: dict = {}
    if exp[0] != obs[0]:
        detail = {"fresh": _cut(exp), "history": _cut(obs)}
        what = obs[1].get("type") if obs[0] == "exc" and isinstance(obs[1], dict) else obs[0]
        return f"{kind}:status:{exp[0]}->{obs[0]}:{what}", detail
    if exp[0] == "exc":
        detail = {"fresh": _cut(exp), "history": _cut(obs)}
        return f"{kind}:exception-differs", detail
    ew = exp[2] if len(exp) > 2 else ""
    ow = obs[2] if len(obs) > 2 else ""
    el = ew if isinstance(ew, list) else ew.splitlines()
    ol = ow if isinstance(ow, list) else ow.splitlines()
    only_fresh = [ln for ln in el if ln not in ol]
    only_hist = [ln for ln in ol if ln not in el]
    eo, oo = exp[1], obs[1]
    first = None
    if isinstance(eo, dict) and isinstance(oo, dict):
        for d in sorted(set(eo) | set(oo)):
            if eo.get(d) != oo.get(d):
                first = _first_line_diff(eo.get(d) or "", oo.get(d) or "")
                detail["document"] = d
                break
    elif isinstance(eo, str) and isinstance(oo, str):
        first = _first_line_diff(eo, oo)
    elif eo != oo:
        first = (repr(eo)[:200], repr(oo)[:200])
    detail.update({"warnings_only_in_fresh": only_fresh[:4], "warnings_only_in_history": only_hist[:4],
                   "first_output_difference": {"fresh": first[0], "history": first[1]} if first else None})
    if only_fresh:
        return f"{kind}:warning-only-in-fresh:{_norm(only_fresh[0])}", detail
    if only_hist:
        return f"{kind}:warning-only-in-history:{_norm(only_hist[0])}", detail
    if first:
        a, b = first
        k = next((j for j, (x, y) in enumerate(zip(a, b)) if x != y), min(len(a), len(b)))
        lo = max(0, k - 30)
        return f"{kind}:output-differs:{_norm(a[lo:k + 30])}|{_norm(b[lo:k + 30])}", detail
    return f"{kind}:observation-differs", detail


def _first_line_diff(a: str, b: str):
    la, lb = a.splitlines(), b.splitlines()
    for x, y in zip(la, lb):
        if x != y:
            return (x[:300], y[:300])
    if len(la) != len(lb):
        longer = la if len(la) > len(lb) else lb
        extra = longer[min(len(la), len(lb))][:300]
        return (extra, "<end>") if len(la) > len(lb) else ("<end>", extra)
    return None


def _cut(x, n=600):
    s = repr(x)
    return s if len(s) <= n else s[:n] + "..."
