"""C15 engine B — schedules of Sphinx parallel reading and writing.

One run = one generated project built (1) serially in sorted order in a pristine child — the
reference —, (2) serially in shuffled read orders (``env-before-read-docs``), (3) under the simulated
``ParallelTasks`` with a seeded partition of the documents into chunks ("any assignment"), seeded
fork points and merge order, each variant in its own pristine child.  Invariant I-PAR: per-document
written output and the multiset of warning lines equal the serial reference.
"""

from __future__ import annotations

import os
import re
import shutil
import tempfile

from .. import sut
from ..core import proc
from ..core.eventlog import EventLog
from ..core.rng import sha, stream
from ..gen import docs as gd
from ..seams.clock import SimClock
from .c15_history import _classify_diff


class Engine:
    name = "c15_parallel"
    property_id = "C15"
    level = "exploration"
    fork_per_run = True
    run_timeout_s = 900
    minimise_budget_s = 240
    default_runs = {"quick": 96, "thorough": 10_000_000}
    default_budget_s = {"quick": 55, "thorough": 800}
    determinism_sample = {"quick": 6, "thorough": 24}
    rule = (
        "one run = one generated Sphinx project (3-8 documents in a directory tree with cross-document "
        "doc#slug links, duplicate headings, includes in both spellings, figure-md, per-document front-matter "
        "overrides, footnotes, numbered math, wordcount) built serially (reference), in 1-2 shuffled read orders "
        "and under 2-4 simulated parallel schedules (seeded document-to-chunk partition for the read and the "
        "write phase, nproc 2-6, seeded start and merge order, forks taken from the parent as it is after the "
        "merges so far); an evaluation is one variant build compared with the reference; non-trivial = a "
        "parallel variant with >= 2 chunks or a read order different from sorted; distinct = distinct "
        "(project digest, partition, event order) tuples as actually executed; a few runs instead sweep EVERY "
        "partition of a four-document project into read chunks under two extreme merge orders (complete over that "
        "finite space)"
    )
    assumptions = [
        "Sphinx workers are modelled as sequential isolated forks (exact for state in process memory; a race on "
        "a shared output file would be missed - MyST writes none, Sphinx's per-document files have distinct names)",
        "generated projects have project-unique explicit labels, equation labels and names; include files carry "
        "none (Sphinx resolves duplicates by read/merge order - upstream behaviour, DESIGN §5.6)",
        "warning order is not compared (it legitimately follows completion order); the multiset of lines is",
        "amsmath labels come from the simulator-owned label source (uuid4 beneath _random_label, which stays real code)",
    ]
    real_vs_stub = {
        "real": ["all of myst_parser", "Sphinx application, environment, builders (xml/html), domains, pickling, "
                 "merge_info_from, worker-side ParallelTasks._process", "docutils", "the scratch project on disk"],
        "stub": ["scheduling half of ParallelTasks and make_chunks (SimParallelTasks)", "amsmath label source",
                 "time.time/time_ns/monotonic"],
        "reference_model": "the serial, sorted-order build of the same project in a pristine process",
    }

    def prepare(self):
        import sphinx.application  # noqa: F401
        import sphinx.builders.html  # noqa: F401
        import sphinx.builders.xml  # noqa: F401

        import myst_parser.parsers.sphinx_  # noqa: F401
        import myst_parser.sphinx_ext.main  # noqa: F401

    # ------------------------------------------------------------------ planning (pure)
    def plan(self, seed_run: int, tier: str) -> dict:
        g = stream(seed_run, "gen")
        s = stream(seed_run, "sched")
        cfg = gd.gen_config(g, "sphinx")
        # the features whose data must cross the worker boundary or that touch shared state are always on
        for ext in ("dollarmath", "amsmath", "colon_fence", "substitution"):
            if ext not in cfg["enable_extensions"] and g.random() < 0.6:
                cfg["enable_extensions"] = sorted(cfg["enable_extensions"] + [ext])
        if g.random() < 0.7:
            cfg["heading_anchors"] = g.choice([1, 2, 3])
        cfg.pop("commonmark_only", None)
        sweep = stream(seed_run, "sweep").random() < (0.12 if tier == "thorough" else 0.04)
        proj = gd.gen_project(g, n_docs=3 if sweep else g.randint(3, 7), front_end="sphinx", cfg=cfg,
                              with_inventory=False, n_blocks=g.choice([4, 6, 10]))
        files = proj["files"]
        docs = sorted(d + ".md" for d in proj["docs"]) + ["index.md"]
        # make sure the known cross-boundary constructs occur somewhere
        names = [d[:-3] for d in docs]
        for d in g.sample(proj["docs"], k=min(len(proj["docs"]), 3)):
            other = g.choice([x for x in names if x != d])
            rel = gd.relpath_from(d, other)
            extra = g.choice([
                f"\n\n## Usage\n\n[x]({rel}.md#usage) [](./{rel}.md#intro) {{sub-ref}}`wordcount-words` words\n",
                f"\n\n```{{include}} {gd.relpath_from(d, g.choice(proj['includes']))}\n:heading-offset: 1\n```\n",
                f"\n\n```{{eval-rst}}\n.. include:: {gd.relpath_from(d, g.choice(proj['includes']))}\n"
                f"   :heading-offset: 1\n```\n",
                "\n\n```{figure-md}\n<img src=\"/img.png\" alt=\"f\">\n\ncaption *here*\n```\n\n<img src=\"/img.png\">\n",
                f"\n\n\\begin{{equation}}\nz=1\n\\end{{equation}}\n\n$$\ny\n$$ ({d.replace('/', '-')}-eqx)\n\n"
                f"{{eq}}`{other.replace('/', '-')}-eqx`\n",
                "\n\n# Intro\n\n# Intro\n\ntext[^z]\n\n[^z]: zed\n",
                "\n\n```{include} no-such-file.inc\n```\n\nafter the missing include\n",
            ])
            files[d + ".md"] = files[d + ".md"].rstrip("\n") + extra
        builder = s.choice(["xml", "xml", "html"])
        if g.random() < 0.25:
            # a document enables the math extensions only at file level (the global configuration lacks them):
            # anything application-wide that depends on them must not depend on which process read the document
            cfg["enable_extensions"] = [x for x in cfg["enable_extensions"] if x not in ("dollarmath", "amsmath")]
            cand = [d for d in proj["docs"] if not files[d + ".md"].startswith("---")]
            if cand:
                d = g.choice(cand)
                files[d + ".md"] = ("---\nmyst:\n  enable_extensions: [dollarmath, amsmath, deflist]\n---\n\n"
                                    + files[d + ".md"].rstrip("\n")
                                    + "\n\nInline $a^2$ math.\n\n$$\nb = 3\n$$\n\n\\begin{equation}\nc\n\\end{equation}\n")
                if g.random() < 0.6:
                    builder = "html"
        docnames = sorted(x[:-3] for x in docs)
        variants = []
        for _ in range(s.choice([1, 1, 2])):
            order = list(docnames)
            s.shuffle(order)
            variants.append({"kind": "shuffled", "order": order})
        for _ in range(s.choice([2, 3, 4])):
            nproc = s.randint(2, 6)
            nchunks = s.randint(2, max(2, min(len(docnames), 6)))
            read_chunks = {d: s.randrange(nchunks) for d in docnames}
            wchunks = s.randint(1, max(1, min(len(docnames) - 1, 4)))
            write_chunks = {d: s.randrange(wchunks) for d in docnames}
            variants.append({"kind": "parallel", "nproc": nproc, "read_chunks": read_chunks,
                             "write_chunks": write_chunks,
                             "sched": [s.randrange(0, 7) for _ in range(4 * len(docnames) + 8)]})
        if sweep:
            # complete sweep: EVERY partition of the (four) documents into read chunks - "any assignment" - each
            # under two extreme merge orders; complete over that finite space for this project
            variants = [v for v in variants if v["kind"] == "shuffled"][:1]
            for part in _set_partitions(docnames):
                if len(part) < 2:
                    continue
                rc = {d: i for i, block in enumerate(part) for d in block}
                for fill in (0, 5):
                    variants.append({"kind": "parallel", "nproc": 2 + fill // 2, "read_chunks": rc,
                                     "write_chunks": {d: 0 for d in docnames}, "sweep": True,
                                     "sched": [fill] * (4 * len(docnames) + 8)})
        if tier == "thorough" and s.random() < 0.03:
            variants.append({"kind": "real_parallel", "nproc": s.randint(2, 4)})
        # incremental rebuilds: a full serial build, then edits, then a second build that reads only the
        # outdated documents - serially (the reference for this variant) or under a simulated schedule
        e = stream(seed_run, "edits")
        if e.random() < 0.6:
            include_only = e.random() < 0.3
            edits = _gen_include_edits(e, files, proj, docnames) if include_only else _gen_edits(
                e, files, proj, docnames)

            cfg2 = None
            if e.random() < 0.3:
                # the configuration changes between the two builds (Sphinx then re-reads every document): the
                # re-read documents must be parsed with the NEW configuration
                cfg2 = dict(cfg)
                how = e.choice(["subs", "anchors", "ext", "footnotes"])
                if how == "subs":
                    cfg2["substitutions"] = {**(cfg.get("substitutions") or {}), "key1": "changed *value*", "key2": 99}
                    if "substitution" not in cfg2["enable_extensions"]:
                        cfg2["enable_extensions"] = sorted(cfg2["enable_extensions"] + ["substitution"])
                elif how == "anchors":
                    cfg2["heading_anchors"] = 0 if cfg.get("heading_anchors") else 3
                elif how == "ext":
                    ext = set(cfg2["enable_extensions"])
                    for x in ("deflist", "dollarmath", "colon_fence"):
                        ext.symmetric_difference_update({x})
                    cfg2["enable_extensions"] = sorted(ext)
                else:
                    cfg2["footnote_sort"] = not cfg.get("footnote_sort", True)
            for _ in range(e.choice([1, 2])):
                nproc = e.randint(2, 5)
                nchunks = e.randint(2, max(2, min(len(docnames), 5)))
                variants.append({"kind": "incremental", "edits": edits, "cfg2": cfg2, "nproc": nproc,
                                 "read_chunks": {d: e.randrange(nchunks) for d in docnames},
                                 "write_chunks": {d: e.randrange(e.randint(1, 3)) for d in docnames},
                                 "sched": [e.randrange(0, 7) for _ in range(4 * len(docnames) + 8)]})
        return {"engine": self.name, "files": files, "cfg": cfg, "builder": builder,
                "variants": variants}

    def plan_size(self, plan) -> dict:
        return {"files": len(plan["files"]), "variants": len(plan["variants"]),
                "chars": sum(len(v) for v in plan["files"].values() if isinstance(v, str))}

    # ------------------------------------------------------------------ execution
    @proc.normalised_recursion(1000)
    def execute(self, plan: dict) -> dict:
        from ..seams import rand

        clock = SimClock()
        log = EventLog(clock=clock)
        ctr: dict = {}
        violations: list = []
        nontrivial: set = set()
        evals = 0

        def count(name, n=1):
            ctr[name] = ctr.get(name, 0) + n

        root = tempfile.mkdtemp(prefix="run-", dir=os.environ.get("MYSTSIM_SCRATCH") or None)
        try:
            sut.write_tree(root, plan["files"])
            clock.install()
            rand.install()
            pdig = sha(repr(sorted((k, repr(v)) for k, v in plan["files"].items())) + repr(plan["cfg"]))[:16]
            log.add("plan", project=pdig, variants=len(plan["variants"]), builder=plan["builder"])
            st, ref = proc.run_in_child(_build, (plan, root, {"kind": "serial"}, "ref"), timeout=400)
            if st == "exc":
                raise RuntimeError(f"reference build failed in harness code: {ref}")
            log.add("obs", key="serial", sha256=sha(repr(ref["obs"]))[:16])
            count("reference_builds")
            count("reference_status:" + ref["obs"][0])
            docnames = sorted(k[:-3] for k in plan["files"] if k.endswith(".md"))
            serial_ref = ref
            inc_refs: dict = {}
            for vi, var in enumerate(plan["variants"]):
                ref = serial_ref
                if var["kind"] == "incremental":
                    ekey = sha(repr(sorted(var["edits"].items())) + repr(var.get("cfg2")))[:16]
                    if ekey not in inc_refs:
                        st, r2 = proc.run_in_child(
                            _build, (plan, root, {"kind": "incremental", "edits": var["edits"], "second": "serial",
                                                  "cfg2": var.get("cfg2")}, f"iref{vi}"), timeout=600)
                        _restore_tree(root, plan["files"], var["edits"])
                        if st == "exc":
                            raise RuntimeError(f"incremental reference build failed in harness code: {r2}")
                        inc_refs[ekey] = r2
                        count("reference_builds_incremental")
                        if var.get("cfg2"):
                            count("probe_incremental_build_with_changed_configuration")
                        # I-INC: the unresolved doctree of every document after the incremental rebuild equals the one
                        # a fresh full build of the edited tree produces (a document's own doctree depends only on
                        # its text, path, configuration and included files - not on what was built before)
                        _apply_edits(root, var["edits"])
                        st, fr = proc.run_in_child(_build, (plan, root, {"kind": "serial", "doctrees": True,
                                                                         "cfg2": var.get("cfg2")},
                                                            f"fresh{vi}"), timeout=600)
                        _restore_tree(root, plan["files"], var["edits"])
                        if st == "exc":
                            raise RuntimeError(f"fresh build of the edited tree failed in harness code: {fr}")
                        count("reference_builds_fresh_of_edited_tree")
                        evals += 1
                        if r2["obs"][0] == "ok" and fr["obs"][0] == "ok" and r2.get("doctrees") is not None:
                            nontrivial.add(sha(pdig + "inc-vs-fresh" + ekey)[:16])
                            rr = set(r2.get("reread") or [])
                            # only documents the incremental build actually re-read are compared: the property
                            # speaks about documents that are parsed (after some history), not about Sphinx's
                            # decision which documents are outdated
                            bad = [d for d in sorted(fr["doctrees"]) if d in rr
                                   and fr["doctrees"][d] != r2["doctrees"].get(d)]
                            count("i_inc_documents_compared", len(rr & set(fr["doctrees"])))
                            # I-DEP: a document that (in the fresh build) records an edited non-document file as a
                            # dependency - it includes it - must be re-read: otherwise the doctree served for it is
                            # the one of its *old* included text
                            edited = {os.path.normpath(k) for k in var["edits"] if not k.endswith(".md")}
                            stale = []
                            for d, deps in sorted((fr.get("dependencies") or {}).items()):
                                hit = [x for x in deps if os.path.normpath(x) in edited]
                                if hit and d not in rr and d in fr["doctrees"] and (
                                        fr["doctrees"][d] != r2["doctrees"].get(d)):
                                    stale.append((d, hit))
                            count("i_dep_dependencies_checked", sum(
                                1 for d, deps in (fr.get("dependencies") or {}).items()
                                if any(os.path.normpath(x) in edited for x in deps)))
                            if stale:
                                violations.append({"invariant": "I-DEP",
                                                   "signature": f"{self.name}/I-DEP/document-with-edited-include-not-re-read",
                                                   "detail": {"stale": stale[:5], "edits": sorted(var["edits"]),
                                                              "reread": sorted(rr)}})
                                break
                            if bad:
                                d0 = bad[0]
                                a, b = fr["doctrees"][d0], r2["doctrees"].get(d0) or ""
                                la, lb = a.splitlines(), b.splitlines()
                                k = next((x for x, (p_, q_) in enumerate(zip(la, lb)) if p_ != q_), min(len(la), len(lb)))
                                reread = d0 in (r2.get("reread") or [])
                                from .c15_history import _norm

                                ch = (f"reread-doctree-differs-from-fresh-build:"
                                      f"{_norm(la[k] if k < len(la) else '<end>')}|{_norm(lb[k] if k < len(lb) else '<end>')}")
                                violations.append({"invariant": "I-INC", "signature": f"{self.name}/I-INC/{ch}",
                                                   "detail": {"document": d0, "documents_differing": bad[:6],
                                                              "edits": sorted(var["edits"]), "reread": r2.get("reread"),
                                                              "fresh_dependencies": (fr.get("dependencies") or {}).get(d0),
                                                              "fresh": la[max(0, k - 2):k + 3],
                                                              "incremental": lb[max(0, k - 2):k + 3]}})
                                break
                        log.add("obs", key=f"incremental-serial-{ekey}", sha256=sha(repr(r2["obs"]))[:16])
                        if r2.get("reread") is not None:
                            count("incremental_docs_reread", len(r2["reread"]))
                            if 0 < len(r2["reread"]) < len(docnames):
                                count("probe_incremental_build_reread_a_strict_subset")
                    ref = inc_refs[ekey]
                st, res = proc.run_in_child(_build, (plan, root, var, f"v{vi}"), timeout=600)
                if var["kind"] == "incremental":
                    _restore_tree(root, plan["files"], var["edits"])
                if st == "exc":
                    raise RuntimeError(f"variant build failed in harness code: {res}")
                evals += 1
                count("variants:" + var["kind"])
                for ev in res.get("events", []):
                    log.add("sched", v=vi, ev=ev)
                log.add("obs", key=f"v{vi}", sha256=sha(repr(res["obs"]))[:16])
                _probes(plan, var, res, count, docnames)
                if var["kind"] in ("parallel", "incremental"):
                    nchunks = len({c for c in var["read_chunks"].values()})
                    if nchunks >= 2:
                        nontrivial.add(sha(pdig + repr(var.get("edits")) + repr(res.get("events")))[:16])
                elif var["kind"] == "shuffled" and var["order"] != docnames:
                    nontrivial.add(sha(pdig + repr(var["order"]))[:16])
                if ref["obs"][0] == "exc" and res["obs"][0] == "exc":
                    # the build aborts in both (a parallel build wraps the worker's exception in
                    # SphinxParallelError): which warnings were emitted before the abort legitimately
                    # depends on how far reading got, so nothing further is compared
                    count("aborted_builds_in_both")
                    continue
                if res["obs"] != ref["obs"]:
                    if var["kind"] == "real_parallel":
                        # uncontrolled execution: never a verdict (DESIGN §5.3); it only cross-checks the stub
                        count("real_parallel_differs_from_serial")
                        continue
                    ch, detail = _classify_diff("sphinx", ref["obs"], res["obs"])
                    ch = ch.replace("fresh", "serial").replace("history", var["kind"])
                    violations.append({"invariant": "I-PAR", "signature": f"{self.name}/I-PAR/{var['kind']}:{ch}",
                                       "detail": {"variant": vi, "kind": var["kind"],
                                                  "events": res.get("events", [])[:60],
                                                  **{k.replace("fresh", "serial").replace("history", "variant"): v
                                                     for k, v in detail.items()}}})
                    break
            if not violations and any(v.get("sweep") for v in plan["variants"]):
                count("partition_sweeps_completed")
                count("partition_sweep_schedules", sum(1 for v in plan["variants"] if v.get("sweep")))
            log.add("end", evals=evals, violations=len(violations))
        finally:
            clock.uninstall()
            shutil.rmtree(root, ignore_errors=True)
        return {
            "evals": evals, "digest": log.digest(), "nontrivial": sorted(nontrivial), "counters": ctr,
            "violations": violations[:1], "sim_us": clock.now_us(), "fault_free": True,
            "sample": {"documents": sorted(k for k in plan["files"] if k.endswith(".md")),
                       "builder": plan["builder"], "cfg": plan["cfg"],
                       "variants": [{k: v for k, v in var.items() if k != "sched"} | {
                           "sched_head": var.get("sched", [])[:10]} for var in plan["variants"]]},
        }

    # ------------------------------------------------------------------ shrinking
    def shrink(self, plan: dict):
        vs = plan["variants"]
        if len(vs) > 1:
            for v in vs:
                yield {**plan, "variants": [v]}
        files = plan["files"]
        mds = sorted(k for k in files if k.endswith(".md") and k != "index.md")
        # drop whole documents (and their toctree entries)
        if len(mds) > 1:
            for rel in mds:
                name = rel[:-3]
                nf = {k: v for k, v in files.items() if k != rel}
                nf["index.md"] = "\n".join(ln for ln in files["index.md"].split("\n") if ln.strip() != name)
                nv = []
                for v in vs:
                    v = dict(v)
                    if v["kind"] == "shuffled":
                        v["order"] = [d for d in v["order"] if d != name]
                    elif v["kind"] in ("parallel", "incremental"):
                        v["read_chunks"] = {d: c for d, c in v["read_chunks"].items() if d != name}
                        v["write_chunks"] = {d: c for d, c in v["write_chunks"].items() if d != name}
                        if "edits" in v:
                            v["edits"] = {k: c for k, c in v["edits"].items() if k != rel}
                    nv.append(v)
                yield {**plan, "files": nf, "variants": nv}
        # simpler schedule
        if len(vs) == 1 and vs[0]["kind"] == "incremental" and len(vs[0]["edits"]) > 1:
            for k in sorted(vs[0]["edits"]):
                yield {**plan, "variants": [{**vs[0], "edits": {a: b for a, b in vs[0]["edits"].items() if a != k}}]}
        if len(vs) == 1 and vs[0]["kind"] in ("parallel", "incremental"):
            v = vs[0]
            if any(v["sched"]):
                yield {**plan, "variants": [{**v, "sched": []}]}
            if len(set(v["write_chunks"].values())) > 1:
                yield {**plan, "variants": [{**v, "write_chunks": {d: 0 for d in v["write_chunks"]}}]}
            chunks = sorted(set(v["read_chunks"].values()))
            if len(chunks) > 2:
                for c in chunks[1:]:
                    yield {**plan, "variants": [{**v, "read_chunks": {
                        d: (chunks[0] if x == c else x) for d, x in v["read_chunks"].items()}}]}
            if v["nproc"] != 2:
                yield {**plan, "variants": [{**v, "nproc": 2}]}
        if plan["builder"] != "xml":
            yield {**plan, "builder": "xml"}
        # drop include / other files, then blocks of the remaining text files
        for rel in sorted(files):
            if rel.endswith(".inc"):
                yield {**plan, "files": {k: v for k, v in files.items() if k != rel}}
        for rel in sorted(files):
            v = files[rel]
            if not isinstance(v, str) or rel in ("conf.py", "index.md"):
                continue
            blocks = v.split("\n\n")
            m = len(blocks)
            if m <= 1:
                continue
            step = max(1, m // 2)
            while step >= 1:
                for start in range(0, m, step):
                    keep = blocks[:start] + blocks[start + step:]
                    if len(keep) < m:
                        yield {**plan, "files": {**files, rel: "\n\n".join(keep)}}
                if step == 1:
                    break
                step //= 2
        for key in sorted(plan["cfg"]):
            yield {**plan, "cfg": {k: v for k, v in plan["cfg"].items() if k != key}}
        for key in sorted(plan["cfg"]):  # single elements of list-valued settings
            val = plan["cfg"][key]
            if isinstance(val, list) and len(val) > 1:
                for j in range(len(val)):
                    yield {**plan, "cfg": {**plan["cfg"], key: val[:j] + val[j + 1:]}}


# ---------------------------------------------------------------------- one build (in a pristine child)


def _conf(cfg: dict) -> dict:
    return {f"myst_{k}": v for k, v in cfg.items()
            if k not in ("suppress_warnings", "highlight_code_blocks", "inventories")}


def _build(plan, root, var, tag):
    conf = _conf(plan["cfg"])
    conf2 = _conf(var["cfg2"]) if var.get("cfg2") else conf
    if var["kind"] == "serial" and var.get("cfg2"):
        conf = conf2  # the fresh build of the edited tree uses the second configuration
    kind = var["kind"]
    events: list = []
    sched = None
    hooks = None
    parallel = 0
    if kind == "shuffled":
        order = list(var["order"])

        def hooks(app):  # noqa: F811
            def reorder(app_, env, docnames):
                rank = {d: i for i, d in enumerate(order)}
                docnames.sort(key=lambda d: rank.get(d, len(rank)))

            app.connect("env-before-read-docs", reorder)
    elif kind == "parallel":
        from ..seams import partasks

        sched = partasks.Scheduler(var)
        partasks.install(sched)
        parallel = max(2, var["nproc"])
    elif kind == "real_parallel":
        parallel = var["nproc"]
    reread = None
    if kind == "incremental":
        import time

        from ..seams.clock import EPOCH_US

        clk = getattr(time.time, "__self__", None)
        # the simulator owns modification times too: Sphinx decides what is outdated by comparing a source's
        # mtime with the (simulated) time at which it was last read
        _set_mtimes(root, (EPOCH_US - 86_400_000_000) * 1000)
        first = sut.sphinx_build(root, tag, root, conf, builder=plan["builder"], parallel=0)
        if first[0] != "ok":
            shutil.rmtree(os.path.join(root, "_build", tag), ignore_errors=True)
            return {"obs": ("first-build-failed", first[1], first[2])}
        edited = _apply_edits(root, var["edits"])
        for p in edited:
            t = (EPOCH_US + 3_600_000_000) * 1000
            os.utime(p, ns=(t, t))
        if clk is not None:
            clk.advance_us(7_200_000_000 - clk.now_us() if clk.now_us() < 7_200_000_000 else 1)
        seen: list = []

        def hooks(app, _outer=None):  # noqa: F811
            app.connect("env-before-read-docs", lambda app_, env, docnames: seen.extend(docnames))

        if var.get("second") != "serial":
            from ..seams import partasks

            sched = partasks.Scheduler(var)
            partasks.install(sched)
            parallel = max(2, var["nproc"])
        r = sut.sphinx_build(root, tag, root, conf2, builder=plan["builder"], parallel=parallel, hooks=hooks,
                             incremental=True, collect_doctrees=var.get("second") == "serial")
        reread = sorted(seen)
    else:
        r = sut.sphinx_build(root, tag, root, conf, builder=plan["builder"], parallel=parallel, hooks=hooks,
                             collect_doctrees=bool(var.get("doctrees")))
    shutil.rmtree(os.path.join(root, "_build", tag), ignore_errors=True)
    out = {"obs": r[:3]}
    if isinstance(r[3], dict) and "doctrees" in r[3]:
        out["doctrees"] = r[3]["doctrees"]
        out["dependencies"] = r[3].get("dependencies")
    if reread is not None:
        out["reread"] = reread
    if sched is not None:
        out["events"] = sched.events
        out["forks_after_merge"] = sched.forks_after_merge
        out["max_running"] = sched.max_running
        out["merges"] = sched.merges
    return out


def _set_partitions(items: list) -> list:
    """All partitions of ``items`` into non-empty blocks (restricted growth strings), deterministic order."""
    out = []

    def rec(i, blocks):
        if i == len(items):
            out.append([list(b) for b in blocks])
            return
        for b in blocks:
            b.append(items[i])
            rec(i + 1, blocks)
            b.pop()
        blocks.append([items[i]])
        rec(i + 1, blocks)
        blocks.pop()

    rec(0, [])
    return out


def _set_mtimes(root: str, t_ns: int) -> None:
    for dirpath, dirnames, filenames in os.walk(root):
        if "_build" in dirnames:
            dirnames.remove("_build")
        for fn in filenames:
            os.utime(os.path.join(dirpath, fn), ns=(t_ns, t_ns))


def _apply_edits(root: str, edits: dict) -> list:
    paths = []
    for rel, content in sorted(edits.items()):
        p = os.path.join(root, rel)
        if content is None:  # touch: only the modification time changes
            paths.append(p)
            continue
        if isinstance(content, dict) and content.get("delete"):
            if os.path.exists(p):
                os.remove(p)
            continue
        sut.write_tree(root, {rel: content})
        paths.append(p)
    return paths


def _restore_tree(root: str, files: dict, edits: dict) -> None:
    """Undo a variant's edits: remove files it added, rewrite everything else."""
    for rel in edits:
        if rel not in files and os.path.exists(os.path.join(root, rel)):
            os.remove(os.path.join(root, rel))
    sut.write_tree(root, files)


_MISSING_INC = re.compile(r"\{include\} (no-such-file\.inc)")


def _gen_include_edits(e, files: dict, proj: dict, docnames: list) -> dict:
    """Edits that touch non-document files only: include files change, a missing include target appears."""
    import posixpath

    edits: dict = {}
    for d in docnames:
        text = files.get(d + ".md", "")
        if _MISSING_INC.search(text) and e.random() < 0.8:
            edits[posixpath.join(posixpath.dirname(d), "no-such-file.inc")] = (
                "Now the file exists.\n\n## Appeared Heading\n\ntext *here*\n")
    for inc in proj["includes"]:
        if e.random() < 0.5 or not edits:
            edits[inc] = e.choice(["# Edited include\n\nnew text\n\n## Usage\n", "edited plain paragraph\n",
                                   "alpha\nMARK\n# Included title (edited)\n\nbeta\n"])
            if len(edits) >= 2:
                break
    return edits


def _gen_edits(e, files: dict, proj: dict, docnames: list) -> dict:
    """1-3 edits of the project between the two builds (JSON-able: {relative path: new text | None=touch})."""
    edits: dict = {}
    mds = [d + ".md" for d in docnames if d != "index" and d + ".md" in files]
    for _ in range(e.choice([1, 2, 3])):
        kind = e.choice(["rename_heading", "rename_and_link", "rename_and_link", "append_link", "front_matter",
                         "include_file", "touch", "add_heading", "remove_doc", "add_doc"])
        rel = e.choice(mds)
        if isinstance(edits.get(rel), dict):
            continue  # this document is being removed
        text = edits.get(rel) if isinstance(edits.get(rel), str) else files[rel]
        if kind == "rename_and_link" and len(mds) >= 2:
            # a heading changes in one document and another (also re-read) document links to the new slug:
            # the data must reach the parent from the worker that read the first one, whatever the merge order
            n = e.randint(1, 99)
            edits[rel] = text.rstrip("\n") + f"\n\n## Fresh Heading {n}\n\nbody\n"
            for other in e.sample([m for m in mds if m != rel], k=min(len(mds) - 1, e.choice([1, 2]))):
                if isinstance(edits.get(other), dict):
                    continue
                otext = edits.get(other) if isinstance(edits.get(other), str) else files[other]
                relp = gd.relpath_from(other[:-3], rel[:-3])
                edits[other] = otext.rstrip("\n") + f"\n\n[]({relp}.md#fresh-heading-{n}) [t]({relp}.md#fresh-heading-{n})\n"
            continue
        if kind == "rename_heading":
            new, n = re.subn(r"(?m)^(#{1,6}) (Intro|Usage|API)$", lambda m: f"{m.group(1)} Renamed {m.group(2)}", text,
                             count=e.choice([1, 2]))
            edits[rel] = new if n else text.rstrip("\n") + "\n\n## Renamed Section\n\ntext\n"
        elif kind == "add_heading":
            edits[rel] = text.rstrip("\n") + "\n\n## Usage\n\nmore\n\n## New Heading\n\nbody\n"
        elif kind == "append_link":
            other = e.choice([d for d in docnames if d + ".md" != rel])
            relp = gd.relpath_from(rel[:-3], other)
            edits[rel] = text.rstrip("\n") + (f"\n\n[]({relp}.md#renamed-usage) [x]({relp}.md#usage) "
                                              f"[]({relp}.md#new-heading) [y]({relp}.md#intro)\n")
        elif kind == "front_matter":
            body = text
            if body.startswith("---\n"):
                end = body.find("\n---", 4)
                body = body[end + 4:].lstrip("\n") if end >= 0 else body
            edits[rel] = "---\nmyst:\n  heading_anchors: 3\n  substitutions: {key1: edited}\n---\n\n" + body
        elif kind == "remove_doc" and len(mds) >= 3 and "index.md" not in edits:
            # a document disappears (its per-document data must be purged); others may still link to it
            edits[rel] = {"delete": True}
            edits["index.md"] = "\n".join(ln for ln in files["index.md"].split("\n") if ln.strip() != rel[:-3])
        elif kind == "add_doc" and "index.md" not in edits:
            new_name = "added_" + str(e.randint(1, 9))
            target = e.choice(mds)[:-3]
            edits[new_name + ".md"] = (f"# Added Page\n\n## Usage\n\n[]({gd.relpath_from(new_name, target)}.md#usage) "
                                       f"[x]({gd.relpath_from(new_name, target)}.md)\n\ntext[^n]\n\n[^n]: note\n")
            edits["index.md"] = files["index.md"].replace("```\n\n", new_name + "\n```\n\n", 1) if (
                "```\n\n" in files["index.md"]) else files["index.md"]
            other = e.choice(mds)
            otext = edits.get(other) if isinstance(edits.get(other), str) else files[other]
            if isinstance(otext, str):
                edits[other] = otext.rstrip("\n") + f"\n\n[]({gd.relpath_from(other[:-3], new_name)}.md#usage)\n"
        elif kind == "include_file":
            inc = e.choice(proj["includes"])
            edits[inc] = "# Edited include\n\nnew text {{ key1 }}\n\n## Usage\n"
        else:
            edits.setdefault(rel, None)
    return edits


_LINK_SLUG = re.compile(r"\(([\w./-]+)\.md#[\w-]+\)")


def _probes(plan, var, res, count, docnames):
    if var["kind"] == "incremental":
        chunks = [ev[2] for ev in res.get("events", []) if ev and ev[0] == "chunks" and ev[1] == "read"]
        if chunks and len(chunks[0]) >= 2:
            count("probe_incremental_reread_split_over_two_or_more_workers")
        if res.get("forks_after_merge"):
            count("probe_fork_happened_after_a_merge")
        return
    if var["kind"] != "parallel":
        return
    rc = var["read_chunks"]
    if res.get("forks_after_merge"):
        count("probe_fork_happened_after_a_merge")
    if res.get("max_running", 0) >= 2:
        count("probe_two_or_more_results_pending_at_once")
    files = plan["files"]
    inc_chunks, rst_inc_chunks, fig_chunks = set(), set(), set()
    cross = False
    for d in docnames:
        text = files.get(d + ".md", "")
        if "{include}" in text:
            inc_chunks.add(rc.get(d))
        if ".. include::" in text:
            rst_inc_chunks.add(rc.get(d))
        if "{figure-md}" in text:
            fig_chunks.add(rc.get(d))
        for m in _LINK_SLUG.finditer(text):
            import posixpath

            tgt = posixpath.normpath(posixpath.join(posixpath.dirname(d), m.group(1)))
            if tgt in rc and rc.get(tgt) != rc.get(d):
                cross = True
    if cross:
        count("probe_cross_chunk_doc_slug_link")
    if len(inc_chunks) >= 2:
        count("probe_two_workers_each_with_a_myst_include")
    if rst_inc_chunks and inc_chunks and (rst_inc_chunks - inc_chunks):
        count("probe_evalrst_include_in_worker_without_myst_include")
    if fig_chunks:
        count("probe_figure_md_in_a_worker_chunk")
    sizes: dict = {}
    for d, c in rc.items():
        sizes[c] = sizes.get(c, 0) + 1
    if any(n >= 2 for n in sizes.values()):
        count("probe_worker_reads_two_or_more_documents")
