"""C18 — inventory loading agrees with Sphinx and is independent of stream chunking.

System under simulation: ``myst_parser.inventory.load`` and, one layer up,
``fetch_inventory`` through an interposed ``open`` / ``urlopen``.  The byte stream is the
seam (``SimStream``): the simulator decides the size of every read, injects read errors,
premature EOF and flipped bytes.  Oracles: O-CHUNK, O-REF (Sphinx's loader as the
reference model), O-RT, O-ERR, O-TORN (DESIGN §6.4).
"""

from __future__ import annotations

import builtins
import io
import os
import urllib.request

from ..core.eventlog import EventLog
from ..core.proc import normalised_recursion
from ..core.rng import sha, stream
from ..gen import inventory as gi
from ..seams.clock import SimClock
from ..seams.stream import InjectedReadError, SimStream, apply_data_fault

DEFAULT_BUFSIZE = 16 * 1024
_REAL_OPEN = builtins.open
_REAL_URLOPEN = urllib.request.urlopen


class Engine:
    name = "c18_stream"
    property_id = "C18"
    level = "fault_enumeration"
    fork_per_run = False
    run_timeout_s = 300
    minimise_budget_s = 45
    default_runs = {"quick": 24000, "thorough": 100_000_000}
    default_budget_s = {"quick": 50, "thorough": 900}
    determinism_sample = {"quick": 96, "thorough": 512}
    rule = (
        "one run = one generated inventory (v1/v2, optionally line/header-mutated) loaded under a one-chunk "
        "baseline, Sphinx's loader, and a seeded set of read schedules (cut-sets: whole, fixed k, random, "
        "boundary-seeking, byte-at-a-time prefix; complete two-chunk, three-chunk (files <= 130 bytes) and all-1-byte sweeps for small files), "
        "a randomised _BUFSIZE knob, via load()/fetch_inventory(path)/fetch_inventory(url), plus injected read "
        "errors, premature EOF and flipped bytes; an evaluation is one load() execution under one schedule/fault; "
        "non-trivial = the stream was cut at least once or a fault was delivered; distinct = distinct "
        "(file digest, cut-set, bufsize, fault, entry point) tuples"
    )
    assumptions = [
        "generated names never contain the str.splitlines()-only separators (\\x0b \\x0c \\x1c-\\x1e \\x85 "
        "\\u2028 \\u2029, bare \\r): Sphinx's dump() collapses them so no real inventory carries them, and "
        "on such bytes Sphinx's own loader mis-splits, so it would be the wrong reference",
        "read(n) never returns b'' before EOF (stream contract); stalled reads are not injected (no deadline "
        "exists in the code under test)",
        "O-RT excludes inventories without objects (Sphinx's format has nowhere to carry the project name)",
        "Sphinx's InventoryFile.loads (8.2.3) is the reference model; it is trusted",
    ]
    real_vs_stub = {
        "real": ["myst_parser.inventory (load, _load_v1, _load_v2, InventoryFileReader, fetch_inventory, "
                 "to_sphinx, from_sphinx)", "zlib", "sphinx.util.inventory.InventoryFile (reference)"],
        "stub": ["the byte stream (SimStream)", "inventory.open / inventory.urlopen (return a SimStream)"],
    }

    # ------------------------------------------------------------------ lifecycle
    def prepare(self):
        import myst_parser.inventory  # noqa: F401
        import sphinx.util.inventory  # noqa: F401

    # ------------------------------------------------------------------ planning (pure)
    def plan(self, seed_run: int, tier: str) -> dict:
        g = stream(seed_run, "gen")
        s = stream(seed_run, "sched")
        f = stream(seed_run, "faults")
        k = stream(seed_run, "knobs")
        spec = gi.gen_spec(g, tier=tier)
        if g.random() < 0.35:
            spec = gi.mutate_spec(g, spec)
        if g.random() < 0.04 and spec["version"] == 2:
            spec["trailing_garbage"] = "trailing"
        data, marks = gi.serialise(spec)
        size = len(data)
        cases = []
        n_sched = k.choice([3, 5, 8])
        for _ in range(n_sched):
            policy, cuts = gi.gen_cuts(s, marks)
            cases.append({
                "kind": "chunk", "policy": policy, "cuts": cuts,
                "bufsize": k.choice([8, 64, 100, 1024, DEFAULT_BUFSIZE, DEFAULT_BUFSIZE, 65536]),
                "via": k.choice(["load", "load", "load", "fetch_path", "fetch_url"]),
            })
        if 1 < size <= 400 and k.random() < 0.3:
            for c in range(1, size):
                cases.append({"kind": "chunk", "policy": "two_chunk_sweep", "cuts": [c],
                              "bufsize": DEFAULT_BUFSIZE, "via": "load"})
        if 2 < size <= 130 and k.random() < (0.1 if tier == "thorough" else 0.02):
            # complete sweep of all three-chunk schedules of a very small file: some reader bugs cannot be shown
            # by any two-piece split (the header's left-over buffer is joined with the second piece)
            for c1 in range(1, size - 1):
                for c2 in range(c1 + 1, size):
                    cases.append({"kind": "chunk", "policy": "three_chunk_sweep", "cuts": [c1, c2],
                                  "bufsize": DEFAULT_BUFSIZE, "via": "load"})
        if 1 < size <= 1200 and k.random() < 0.3:
            cases.append({"kind": "chunk", "policy": "all_one_byte", "cuts": {"range": [1, size, 1]},
                          "bufsize": k.choice([1, 8, DEFAULT_BUFSIZE]), "via": "load"})
        n_fault = k.choice([0, 2, 3, 4])
        hb = marks["body_start"]
        for _ in range(n_fault):
            policy, cuts = gi.gen_cuts(s, marks)
            kind = f.choice(["EIO", "timeout", "reset", "eof", "eof", "flip", "flip"])
            # bias positions to header/body boundaries and to the tail; never "after EOF" for data faults
            if f.random() < 0.4 and size:
                pos = min(size, max(0, hb + f.choice([-2, -1, 0, 1, 2, 10])))
            elif f.random() < 0.3 and size:
                pos = max(0, size - f.choice([0, 1, 2, 3, 9]))
            else:
                pos = f.randint(0, size)
            if kind in ("EIO", "timeout", "reset"):
                fault = {"kind": kind, "at_pos": pos}
            elif kind == "eof":
                fault = {"kind": "eof", "at_byte": min(pos, max(size - 1, 0))}
            else:
                fault = {"kind": "flip", "at_byte": min(pos, max(size - 1, 0)), "xor": f.choice([1, 0x20, 0x80, 0xFF])}
            cases.append({"kind": "fault", "policy": policy, "cuts": cuts,
                          "bufsize": k.choice([64, DEFAULT_BUFSIZE]), "via": k.choice(["load", "fetch_url"]),
                          "fault": fault})
        return {"engine": self.name, "spec": spec, "cases": cases}

    def plan_size(self, plan) -> dict:
        return {"lines": len(plan["spec"]["lines"]), "cases": len(plan["cases"]),
                "cuts": sum(n_cuts(c["cuts"]) for c in plan["cases"])}

    # ------------------------------------------------------------------ execution
    @normalised_recursion(1000)
    def execute(self, plan: dict) -> dict:
        from myst_parser import inventory as inv_mod

        clock = SimClock()
        log = EventLog(clock=clock)
        spec = plan["spec"]
        data, marks = gi.serialise(spec)
        ddig = sha(data)[:16]
        log.add("plan", data=ddig, size=len(data), cases=len(plan["cases"]))
        ctr: dict = {}
        nontrivial: set = set()
        violations: list = []
        evals = 0

        def count(name, n=1):
            ctr[name] = ctr.get(name, 0) + n

        def violate(invariant, channel, **detail):
            violations.append({"invariant": invariant, "signature": f"{self.name}/{invariant}/{channel}",
                               "detail": detail})
            log.add("verdict", invariant=invariant, channel=channel)

        # ---- baseline (one chunk) and reference model
        base = _run_load(inv_mod, data, [], DEFAULT_BUFSIZE, "load", None, log, clock)
        evals += 1
        log.add("obs", key="baseline", sha256=sha(repr(base["outcome"]))[:16])
        count("baseline_ok" if base["outcome"][0] == "ok" else "baseline_raised:" + base["outcome"][1])
        if base["eof_in_header"]:
            count("probe_eof_discovered_during_header")
        ref = _run_sphinx(data)
        count("sphinx_ok" if ref[0] == "ok" else "sphinx_raised:" + ref[1])
        mutated = bool(spec["mutated"]) or spec.get("header_mutation") or not spec["final_newline"] \
            or spec.get("trailing_garbage")
        count("inventories_mutated" if mutated else "inventories_clean")
        count(f"inventories_v{spec['version']}")

        if base["outcome"][0] == "ok":
            inv = base["inv"]
            mine = _as_sphinx_dict(inv_mod.to_sphinx(inv))
            if ref[0] == "ok":
                if mine != ref[1]:
                    ch, d = _classify_ref_diff(mine, ref[1], spec)
                    violate("O-REF", ch, **d)
                else:
                    count("ref_agreements")
            else:
                # Sphinx refuses these bytes: MyST may raise or skip, but must not corrupt other entries
                # (only meaningful for line-level mutations: with a damaged header the lines may not even
                # be in the file, and the property says nothing about which header damage must be refused)
                cref = ("skip",) if spec.get("header_mutation") else _run_sphinx(
                    gi.serialise(gi.clean_spec(spec))[0])
                if cref[0] == "ok":
                    bad = _check_uncorrupted(mine, cref[1], spec)
                    if bad:
                        violate("O-REF", "corrupted-entry-next-to-malformed-line", **bad)
                    else:
                        count("ref_uncorrupted_checks")
            # O-RT
            if not violations and any(o for d in inv["objects"].values() for o in d.values()):
                back = inv_mod.from_sphinx(inv_mod.to_sphinx(inv))
                for key in ("name", "version", "objects"):
                    if back[key] != inv[key]:
                        violate("O-RT", "roundtrip:" + key, expected=_short(inv[key]), actual=_short(back[key]))
                        break
                else:
                    count("roundtrips_checked")
        elif ref[0] == "ok":
            # MyST refuses bytes Sphinx accepts: the property says "yields the same ... as Sphinx's loader"
            violate("O-REF", "raises-where-sphinx-loads:" + base["outcome"][1],
                    myst=base["outcome"][1:], sphinx_entries=sum(len(v) for v in ref[1].values()))

        # ---- schedules and faults
        sweeps = {"two_chunk_sweep": 0, "three_chunk_sweep": 0, "all_one_byte": 0}
        for ci, case in enumerate(plan["cases"]):
            if violations:
                break
            fault = case.get("fault")
            cuts = [c for c in expand_cuts(case["cuts"]) if 0 < c < len(data)]
            fdata = apply_data_fault(data, fault) if fault and fault["kind"] in ("eof", "flip") else data
            fail_at_pos = fault["at_pos"] if fault and fault["kind"] in ("EIO", "timeout", "reset") else None
            r = _run_load(inv_mod, fdata, cuts, case["bufsize"], case["via"],
                          (fail_at_pos, fault["kind"]) if fail_at_pos is not None else None, log, clock)
            evals += 1
            out = r["outcome"]
            log.add("obs", key=f"case{ci}", sha256=sha(repr(out))[:16], reads=r["n_reads"])
            count("cases_policy:" + case["policy"].rstrip("0123456789"))
            count("cases_via:" + case["via"])
            count("bufsize:" + str(case["bufsize"]))
            for sz in r["sizes"]:
                count("read_size:" + ("1" if sz == 1 else "2-7" if sz < 8 else "8-63" if sz < 64
                                      else "64-4095" if sz < 4096 else ">=4096"))
            if r["eof_in_header"]:
                count("probe_eof_discovered_during_header")
            if case["via"] != "load":
                count("stream_closed_after_fetch" if r["closed"] else "stream_left_open_after_fetch")
            _probe_cuts(cuts, marks, count)
            if cuts or fault:
                nontrivial.add(sha(repr((ddig, cuts, case["bufsize"], fault, case["via"])))[:16])
            if case["policy"] in sweeps:
                sweeps[case["policy"]] += 1

            if not fault:
                exp = _with_base_url(base["outcome"], r["base_url"])
                if out != exp and exp[0] == "exc" and out[0] == "exc" and "RecursionError" not in (exp[1], out[1]):
                    # both schedules fail: "the load fails with an error" - which error class a damaged file is
                    # refused with is not part of the property (it can depend on whether the decompressor or the
                    # decoder meets its damage first); resource exhaustion that depends on chunking still is
                    count("both_raise_with_different_error_classes")
                elif out != exp:
                    ch, d = _classify_chunk_diff(exp, out)
                    violate("O-CHUNK", ch, case=ci, cuts=cuts[:40], n_cuts=len(cuts), bufsize=case["bufsize"],
                            via=case["via"], **d)
                continue

            kind = fault["kind"]
            if kind in ("EIO", "timeout", "reset"):
                if not r["fault_delivered"]:
                    count("faults_planned_not_reached")
                    continue
                count("faults_delivered:" + kind)
                if out[0] == "ok":
                    violate("O-ERR", "returned-table-after:" + kind, case=ci, fault=fault,
                            entries=_n_entries(r["inv"]))
                continue
            # eof / flip
            if fdata == data:
                count("faults_planned_not_reached")
                continue
            count("faults_delivered:" + kind)
            if out[0] != "ok":
                count("torn_raised")
                continue
            mine_f = _as_sphinx_dict(inv_mod.to_sphinx(r["inv"]))
            sref = _run_sphinx(fdata)
            if sref[0] == "ok" and sref[1] == mine_f:
                count("torn_equals_sphinx_on_damaged_bytes")
                continue
            # MyST returned a table that Sphinx does not return for the damaged bytes.  The property only
            # demands that well-formed lines are not corrupted, so the table must be *explained by a
            # line-faithful reading of the recoverable text*: Sphinx's result on the complete lines that
            # can be recovered from the damaged bytes, with or without the partial tail line.
            cands, why = _torn_candidates(fdata, spec["version"])
            if cands is None:
                count("torn_unverifiable:" + why)
                continue
            if mine_f in cands:
                count("torn_explained_by_recoverable_text")
                continue
            violate("O-TORN", "table-not-explained-by-recoverable-text:" + kind, case=ci, fault=fault,
                    myst_entries=sum(len(v) for v in mine_f.values()),
                    candidate_entries=[sum(len(v) for v in c.values()) for c in cands],
                    first_difference=_first_diff(mine_f, cands[0]))
        if not violations:
            for k2, n in sweeps.items():
                if n:
                    count("sweeps_completed:" + k2)

        log.add("end", evals=evals, violations=len(violations))
        return {
            "evals": evals, "digest": log.digest(), "nontrivial": sorted(nontrivial), "counters": ctr,
            "violations": violations[:1], "sim_us": clock.now_us(), "fault_free": not any(
                c.get("fault") for c in plan["cases"]),
            "sample": {"spec": {k: (v if k != "lines" else v[:4] + (["..."] if len(v) > 4 else []))
                                for k, v in spec.items()},
                       "file_bytes": len(data),
                       "cases": [{k: (v if k != "cuts" or isinstance(v, dict) else v[:12]) for k, v in c.items()}
                                 for c in plan["cases"][:6]]},
        }

    # ------------------------------------------------------------------ shrinking
    def shrink(self, plan: dict):
        cases = plan["cases"]
        spec = plan["spec"]
        # 1. a single case
        if len(cases) > 1:
            for i in range(len(cases)):
                yield {**plan, "cases": [cases[i]]}
            yield {**plan, "cases": []}
        if len(cases) == 1 and not cases[0].get("fault"):
            yield {**plan, "cases": []}
        # 2. fewer lines
        n = len(spec["lines"])
        if n:
            step = max(1, n // 2)
            while step >= 1:
                for start in range(0, n, step):
                    drop = set(range(start, min(n, start + step)))
                    if len(drop) == n and n > 1:
                        continue
                    yield {**plan, "spec": _drop_lines(spec, drop)}
                if step == 1:
                    break
                step //= 2
        # 3. simpler envelope
        for key, val in (("trailing_garbage", ""), ("header_pad", ""), ("header_eol", "\n"), ("line_eol", "\n"),
                         ("sync_after", []), ("level", 9), ("header_mutation", None), ("final_newline", True)):
            if spec.get(key) != val:
                yield {**plan, "spec": {**spec, key: val}}
        if len(spec["project"]) > 8:
            yield {**plan, "spec": {**spec, "project": spec["project"][: max(4, len(spec["project"]) // 2)]}}
        # 4. fewer cuts / simpler knobs in the (single) case
        if len(cases) == 1:
            c = cases[0]
            cuts = c["cuts"]
            if isinstance(cuts, dict):
                a, b, st = cuts["range"]
                if b - a > 2:
                    yield {**plan, "cases": [{**c, "cuts": {"range": [a, a + (b - a) // 2, st]}}]}
                    yield {**plan, "cases": [{**c, "cuts": {"range": [a, b - max(1, (b - a) // 8), st]}}]}
                    yield {**plan, "cases": [{**c, "cuts": {"range": [a, b - 1, st]}}]}
                yield {**plan, "cases": [{**c, "cuts": []}]}
            elif cuts:
                half = len(cuts) // 2
                for sub in ([], cuts[:half], cuts[half:], cuts[::2], cuts[1::2]):
                    if len(sub) < len(cuts):
                        yield {**plan, "cases": [{**c, "cuts": sub}]}
                if len(cuts) <= 12:
                    for i in range(len(cuts)):
                        yield {**plan, "cases": [{**c, "cuts": cuts[:i] + cuts[i + 1:]}]}
            if c["bufsize"] != DEFAULT_BUFSIZE:
                yield {**plan, "cases": [{**c, "bufsize": DEFAULT_BUFSIZE}]}
            if c["via"] != "load":
                yield {**plan, "cases": [{**c, "via": "load"}]}


# ---------------------------------------------------------------------- helpers


def expand_cuts(c) -> list[int]:
    """A cut-set is a list of offsets or the compact form {"range": [start, stop, step]}."""
    if isinstance(c, dict):
        a, b, st = c["range"]
        return list(range(a, b, st))
    return list(c)


def n_cuts(c) -> int:
    return len(expand_cuts(c))


def _drop_lines(spec, drop: set) -> dict:
    keep_idx = [i for i in range(len(spec["lines"])) if i not in drop]
    remap = {old: new for new, old in enumerate(keep_idx)}
    return {**spec, "lines": [spec["lines"][i] for i in keep_idx],
            "mutated": [remap[m] for m in spec["mutated"] if m in remap],
            "sync_after": [remap[s] for s in spec["sync_after"] if s in remap]}


def _canon(inv: dict):
    return (inv["name"], inv["version"],
            [(d, [(t, [(n, it["loc"], it["text"]) for n, it in names.items()]) for t, names in types.items()])
             for d, types in inv["objects"].items()])


def _with_base_url(outcome, base_url):
    return outcome


def _run_load(inv_mod, data, cuts, bufsize, via, fail, log, clock):
    st = SimStream(data, cuts, log=log, clock=clock, name=via)
    if fail is not None:
        st.fail_at_pos, st.fail_kind = fail
    old_buf = inv_mod._BUFSIZE
    inv_mod._BUFSIZE = bufsize
    res = {"inv": None, "base_url": None}
    try:
        try:
            if via == "load":
                inv = inv_mod.load(st)
            elif via == "fetch_path":
                # the seam is the open() of this one path, however the code spells it (open, io.open, Path.open)
                def _sim_open(file, *a, **k):
                    if not isinstance(file, int) and os.fspath(file) == "/sim/objects.inv":
                        return st
                    return _REAL_OPEN(file, *a, **k)

                builtins.open = io.open = _sim_open
                inv = inv_mod.fetch_inventory("/sim/objects.inv")
            else:
                fake = lambda u, *a, **k: st  # noqa: E731 - the seam is urlopen, however the module refers to it
                inv_mod.urlopen = fake
                urllib.request.urlopen = fake
                inv = inv_mod.fetch_inventory("https://sim.invalid/objects.inv")
            res["inv"] = inv
            outcome = ("ok", _canon(inv))
        except InjectedReadError as e:
            outcome = ("exc", type(e).__name__, "injected")
        except RecursionError:
            outcome = ("exc", "RecursionError", "")
        except Exception as e:  # noqa: BLE001 - the exception type is the observation
            outcome = ("exc", type(e).__name__, "")
    finally:
        inv_mod._BUFSIZE = old_buf
        builtins.open = io.open = _REAL_OPEN
        urllib.request.urlopen = _REAL_URLOPEN
        if "urlopen" in inv_mod.__dict__:
            inv_mod.urlopen = _REAL_URLOPEN
    res.update(outcome=outcome, n_reads=st.n_reads, sizes=st.sizes, closed=st.closed,
               fault_delivered=st.fault_delivered,
               eof_in_header=_eof_in_header(data, st))
    return res


def _eof_in_header(data, st) -> bool:
    # EOF was reached although the file has fewer than three newlines: the header reader met EOF
    return st.reads_after_eof > 0 and data.count(b"\n") < 3


def _run_sphinx(data: bytes):
    from sphinx.util.inventory import InventoryFile

    try:
        inv = InventoryFile.loads(data, uri="")
    except RecursionError:
        return ("exc", "RecursionError")
    except Exception as e:  # noqa: BLE001
        return ("exc", type(e).__name__)
    out = {}
    for typ, names in inv.data.items():
        out[typ] = {n: (it.project_name, it.project_version, it.uri, it.display_name) for n, it in names.items()}
    return ("ok", out)


def _as_sphinx_dict(d) -> dict:
    return {typ: {n: tuple(v) for n, v in names.items()} for typ, names in d.items()}


def _n_entries(inv) -> int:
    return sum(len(n) for d in inv["objects"].values() for n in d.values()) if inv else 0


def _short(x, n=400):
    s = repr(x)
    return s if len(s) <= n else s[:n] + "..."


def _last_line_key(spec):
    if not spec["lines"]:
        return None
    import re

    m = re.match(r"(?x)(.+?)\s+(\S+)\s+(-?\d+)\s+?(\S*)\s+(.*)", spec["lines"][-1].rstrip())
    return (m.group(2), m.group(1)) if m else None


def _classify_ref_diff(mine: dict, ref: dict, spec: dict):
    """Channel of the first divergence between MyST's and Sphinx's table (observation-derived)."""
    for typ, names in ref.items():
        for n, v in names.items():
            if typ not in mine or n not in mine[typ]:
                ch = "missing-entry"
                if not spec["final_newline"] and _last_line_key(spec) == (typ, n):
                    ch = "missing-entry:last-line-without-newline"
                return ch, {"type": typ, "name": n, "sphinx": v, "myst": None}
            if mine[typ][n] != v:
                fields = ["project", "version", "location", "display_name"]
                which = [f for f, a, b in zip(fields, mine[typ][n], v) if a != b]
                ch = "entry-differs:" + "+".join(which)
                dup = sum(1 for ln in spec["lines"] if _line_key(ln) == (typ, n)) > 1
                if dup:
                    ch = "duplicate-key-resolved-differently:" + ("py:module" if typ == "py:module" else "other")
                return ch, {"type": typ, "name": n, "sphinx": v, "myst": mine[typ][n]}
    for typ, names in mine.items():
        for n, v in names.items():
            if typ not in ref or n not in ref[typ]:
                return "extra-entry", {"type": typ, "name": n, "sphinx": None, "myst": v}
    return "tables-differ", {}


def _line_key(ln: str):
    import re

    m = re.match(r"(?x)(.+?)\s+(\S+)\s+(-?\d+)\s+?(\S*)\s+(.*)", ln.rstrip())
    return (m.group(2), m.group(1)) if m else None


def _check_uncorrupted(mine: dict, clean_ref: dict, spec: dict):
    """Every entry of a non-mutated line must be present and intact (keys that a mutated line could
    also produce are exempt)."""
    exempt_names = set()
    for i in spec["mutated"]:
        if i < len(spec["lines"]):
            exempt_names.update(spec["lines"][i].split())
            k = _line_key(spec["lines"][i])
            if k:
                exempt_names.add(k[1])
    for typ, names in clean_ref.items():
        for n, v in names.items():
            if n in exempt_names or any(w in exempt_names for w in n.split()):
                continue
            got = mine.get(typ, {}).get(n)
            if got != v:
                return {"type": typ, "name": n, "expected": v, "myst": got}
    return None


def _exotic(text: bytes) -> bool:
    t = text.decode("utf-8", "replace").replace("\r\n", "\n")
    return any(ch in t for ch in gi.EXOTIC)


def _torn_candidates(fdata: bytes, version: int):
    """Tables a line-faithful loader may return for damaged bytes (None, reason) if not decidable."""
    import zlib

    if version == 2:
        parts = fdata.split(b"\n", 4)
        if len(parts) < 5:
            return None, "header-incomplete"
        header = b"\n".join(parts[:4]) + b"\n"
        if _exotic(header):
            return None, "exotic-separator"
        d = zlib.decompressobj()
        try:
            text = d.decompress(parts[4]) + d.flush()
        except zlib.error:
            return None, "zlib-error-in-one-shot-decompression"
        stream_complete = d.eof
    else:
        parts = fdata.split(b"\n", 3)
        if len(parts) < 4:
            return None, "header-incomplete"
        header = b"\n".join(parts[:3]) + b"\n"
        text = parts[3]
        stream_complete = True  # plain text carries no end marker: a cut last line cannot be told from a final one
        if _exotic(header):
            return None, "exotic-separator"
    if _exotic(text):
        return None, "exotic-separator"
    lines = text.split(b"\n")
    complete, tail = lines[:-1], lines[-1]
    if version == 1:
        complete = [ln for ln in complete if ln]  # MyST's v1 reader skips empty lines
    variants = [b"".join(ln + b"\n" for ln in complete)]
    if tail and stream_complete:
        # a last line without newline is an entry only when the stream is known to be complete: the cut-off line
        # of a truncated zlib stream is not ("only complete lines are emitted", DESIGN §6.4)
        variants.append(variants[0] + tail)
    cands = []
    for body in variants:
        blob = header + (zlib.compress(body) if version == 2 else body)
        r = _run_sphinx(blob)
        if r[0] == "ok":
            cands.append(r[1])
    if not cands:
        return None, "sphinx-raises-on-recoverable-text"
    return cands, ""


def _first_diff(a: dict, b: dict):
    for typ in list(a) + [t for t in b if t not in a]:
        na, nb = a.get(typ, {}), b.get(typ, {})
        for n in list(na) + [x for x in nb if x not in na]:
            if na.get(n) != nb.get(n):
                return {"type": typ, "name": n, "myst": na.get(n), "candidate": nb.get(n)}
    return None


def _classify_chunk_diff(exp, out):
    if exp[0] != out[0]:
        if out[0] == "exc":
            return "raises-under-schedule:" + out[1], {"one_chunk": exp[0], "scheduled": out[:2]}
        return "loads-under-schedule-but-one-chunk-raises:" + exp[1], {"one_chunk": exp[:2], "scheduled": "ok"}
    if exp[0] == "exc":
        return "exception-type-differs:" + exp[1] + "->" + out[1], {"one_chunk": exp[:2], "scheduled": out[:2]}
    a, b = exp[1], out[1]
    if a[:2] != b[:2]:
        return "header-fields-differ", {"one_chunk": a[:2], "scheduled": b[:2]}
    fa = [(d, t, n, l, x) for d, ts in a[2] for t, ns in ts for n, l, x in ns]
    fb = [(d, t, n, l, x) for d, ts in b[2] for t, ns in ts for n, l, x in ns]
    if len(fb) < len(fa):
        ch = "entries-lost"
    elif len(fb) > len(fa):
        ch = "entries-added"
    elif sorted(fa, key=repr) == sorted(fb, key=repr):
        ch = "entry-order-differs"
    else:
        ch = "entries-differ"
    first = next((x for x in fa if x not in fb), None)
    return ch, {"one_chunk_entries": len(fa), "scheduled_entries": len(fb), "first_missing": first}


def _probe_cuts(cuts, marks, count):
    if not cuts:
        return
    cs = set(cuts)
    nl = marks["header_newlines"]
    prev = 0
    for i, p in enumerate(nl):
        if any(prev < c <= p for c in cs):
            count(f"probe_cut_inside_header_line_{i}")
        prev = p + 1
    b = marks["body_start"]
    if b in cs:
        count("probe_cut_exactly_at_body_start")
    if any(m in cs for m in marks["multibyte"]):
        count("probe_cut_inside_utf8_sequence")
    if any(s in cs for s in marks["sync_points"]):
        count("probe_cut_at_sync_flush_point")
    if marks["size"] - 1 in cs:
        count("probe_cut_one_byte_before_eof")
