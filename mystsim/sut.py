"""Adapters that drive the real system under test through its public entry points.

Nothing here decides a verdict; these functions only run real code and return observations
with every absolute scratch path rewritten to ``<ROOT>``.
"""

from __future__ import annotations

import io
import os
import re
import traceback


def scrub(text: str, root: str) -> str:
    """Rewrite the scratch root - and its ancestors, which a ``../`` link can legitimately reach -
    so that no observation depends on where the run's scratch directory happens to live."""
    if root:
        for r in {root, os.path.realpath(root)}:
            text = text.replace(r, "<ROOT>")
            up, rel = os.path.dirname(r), "<ROOT>/.."
            while up and up != "/":
                text = text.replace(up + "/", rel + "/").replace(up, rel)
                up, rel = os.path.dirname(up), rel + "/.."
    return text


_SET_RE = re.compile(r"\{('[^{}']*'(?:, '[^{}']*')+)\}")


def canon_sets(text: str) -> str:
    """Canonicalise printed Python sets of strings (their order depends on PYTHONHASHSEED)."""

    def fix(m):
        items = sorted(x.strip() for x in m.group(1).split(", "))
        return "{" + ", ".join(items) + "}"

    return _SET_RE.sub(fix, text)


def exc_signature(e: BaseException) -> dict:
    """Type, message and innermost myst_parser frame of an escaping exception."""
    tb = traceback.extract_tb(e.__traceback__)
    inner = None
    for fr in tb:
        if "/myst_parser/" in fr.filename:
            inner = fr
    last = tb[-1] if tb else None
    return {
        # the exception was raised while a docutils/Sphinx *writer* translated a finished doctree
        # ... or in the builder's per-document write step / finishing step (``write_doc``, page contexts, indices):
        # everything after the document has been read and its references resolved
        "in_writer": any("/writers/" in fr.filename.replace(os.sep, "/")
                         or (fr.name in ("write_doc", "write_doc_serialized", "handle_page", "finish", "get_doc_context")
                             and "/sphinx/builders/" in fr.filename.replace(os.sep, "/"))
                         # ... or in Sphinx's toctree adapter (it fails, for rST sources just the same, on a
                         # download link inside a section title that a toctree lists)
                         or "/sphinx/environment/adapters/" in fr.filename.replace(os.sep, "/") for fr in tb),
        "type": type(e).__name__,
        "message": str(e)[:300],
        "myst_frame": f"{os.path.basename(inner.filename)}:{inner.name}" if inner else None,
        "raise_frame": f"{os.path.basename(last.filename)}:{last.name}" if last else None,
    }


# ---------------------------------------------------------------- docutils front end


def docutils_overrides(cfg: dict, extra: dict | None = None) -> dict:
    ov = {f"myst_{k}": v for k, v in cfg.items()}
    ov.update({"report_level": 2, "halt_level": 5, "traceback": True, "language_code": "en",
               "output_encoding": "unicode", "embed_stylesheet": False, "_disable_config": True})
    if extra:
        ov.update(extra)
    return ov


def new_settings(overrides: dict):
    """A long-lived docutils settings object, as a caller that reuses one would build it."""
    from docutils.frontend import get_default_settings

    from myst_parser.parsers.docutils_ import Parser

    settings = get_default_settings(Parser)
    settings.update(overrides, _OptParserShim())
    return settings


class _OptParserShim:
    """``Values.update`` consults ``option_parser.lists`` for list-valued settings only."""

    lists: dict = {}


def docutils_parse(text: str, path: str, root: str, overrides: dict | None = None, settings=None, parser=None,
                   writer: str | None = None):
    """publish_doctree / publish_string with a captured warning stream.

    Returns ``("ok", output, warnings)`` or ``("exc", signature, warnings)``.
    """
    from docutils.core import publish_doctree, publish_string

    from myst_parser.parsers.docutils_ import Parser

    ws = io.StringIO()
    kw: dict = {}
    if settings is not None:
        settings.warning_stream = ws
        kw["settings"] = settings
    else:
        ov = dict(overrides or {})
        ov["warning_stream"] = ws
        kw["settings_overrides"] = ov
    p = parser if parser is not None else Parser()
    written = None
    try:
        if writer:
            # the writer runs (its state is part of the history) but the observation stays the doctree:
            # the property speaks about "the doctree and warnings produced for a document"
            from docutils import io as dio
            from docutils.core import publish_programmatically

            written, pub = publish_programmatically(
                source_class=dio.StringInput, source=text, source_path=path,
                destination_class=dio.StringOutput, destination=None, destination_path=None,
                reader=None, reader_name="standalone", parser=p, parser_name=None, writer=None,
                writer_name=writer, settings=kw.get("settings"), settings_spec=None,
                settings_overrides=kw.get("settings_overrides"), config_section=None, enable_exit_status=False)
            doctree = pub.document
        else:
            doctree = publish_doctree(text, source_path=path, parser=p, **kw)
        out = doctree.pformat()
    except Exception as e:  # noqa: BLE001 - an escaping exception is an observation
        return ("exc", exc_signature(e), canon_sets(scrub(ws.getvalue(), root)), None)
    return ("ok", canon_sets(scrub(out, root)), canon_sets(scrub(ws.getvalue(), root)), doctree)


# ---------------------------------------------------------------- Sphinx front end

CONF_PY = "extensions = ['myst_parser']\nproject = 'simproj'\nexclude_patterns = ['_build', '**/*.inc']\n"


def sphinx_build(srcdir: str, outname: str, root: str, confoverrides: dict | None = None, builder: str = "xml",
                 parallel: int = 0, hooks=None, keep_app: bool = False, write_phase: bool = True,
                 observe: str = "written", incremental: bool = False, share_confoverrides: bool = False, collect_doctrees: bool = False):
    """One fresh in-process Sphinx application on ``srcdir``.

    Returns ``("ok", {docname: output}, sorted_warnings, extra)`` or ``("exc", signature, warnings, extra)``.
    ``hooks(app)`` is called after the application is created and before the build.
    """
    from sphinx.application import Sphinx
    from sphinx.util.console import nocolor
    from sphinx.util.docutils import docutils_namespace

    nocolor()
    outdir = os.path.join(root, "_build", outname)
    doctreedir = os.path.join(outdir, ".doctrees")
    status, warning = io.StringIO(), io.StringIO()
    extra: dict = {}
    try:
        with docutils_namespace():
            app = Sphinx(srcdir, srcdir, outdir, doctreedir, builder,
                         confoverrides=confoverrides if share_confoverrides else dict(confoverrides or {}),
                         status=status, warning=warning, freshenv=not incremental, parallel=parallel,
                         warningiserror=False, keep_going=True)
            cfg0 = _cfg_snapshot(app)
            if hooks is not None:
                hooks(app)
            if write_phase:
                app.build(force_all=not incremental)
            else:
                app.builder.read()
            extra["cfg_before"] = cfg0
            extra["cfg_after"] = _cfg_snapshot(app)
            extra["found_docs"] = sorted(app.env.found_docs)
            outputs = {}
            if write_phase and observe == "resolved":
                for docname in sorted(app.env.found_docs):
                    try:
                        dt = app.env.get_and_resolve_doctree(docname, app.builder)
                        outputs[docname] = scrub(dt.pformat(), root)
                    except Exception as e:  # noqa: BLE001
                        outputs[docname] = f"<no resolved doctree: {type(e).__name__}: {e}>"
                        extra.setdefault("resolve_errors", {})[docname] = exc_signature(e)
            elif write_phase:
                suffix = {"xml": ".xml", "pseudoxml": ".pseudoxml", "html": ".html", "text": ".txt"}[builder]
                for docname in sorted(app.env.found_docs):
                    p = os.path.join(outdir, docname + suffix)
                    if os.path.exists(p):
                        with open(p, encoding="utf-8", errors="replace") as f:
                            outputs[docname] = scrub(f.read(), root)
                    else:
                        outputs[docname] = None
            else:
                for docname in sorted(app.env.found_docs):
                    try:
                        outputs[docname] = scrub(app.env.get_doctree(docname).pformat(), root)
                    except Exception as e:  # noqa: BLE001
                        outputs[docname] = f"<no doctree: {type(e).__name__}>"
            if collect_doctrees:
                # the read-phase (unresolved) doctrees as pickled in the environment: a function of each document's
                # own text, path, configuration and included files only
                dts = {}
                for docname in sorted(app.env.found_docs):
                    try:
                        dts[docname] = canon_sets(scrub(app.env.get_doctree(docname).pformat(), root))
                    except Exception as e:  # noqa: BLE001
                        dts[docname] = f"<no doctree: {type(e).__name__}>"
                extra["doctrees"] = dts
                extra["dependencies"] = {d: sorted(str(x) for x in v) for d, v in sorted(app.env.dependencies.items())}
            if keep_app:
                extra["app"] = app
    except Exception as e:  # noqa: BLE001
        return ("exc", exc_signature(e), _warn_lines(warning.getvalue(), root), extra)
    return ("ok", outputs, _warn_lines(warning.getvalue(), root), extra)


def _warn_lines(text: str, root: str) -> list[str]:
    return sorted(ln for ln in canon_sets(scrub(text, root)).splitlines() if ln.strip())


def _cfg_snapshot(app):
    env = getattr(app, "env", None)
    cfg = getattr(env, "myst_config", None)
    snap = {}
    if cfg is not None:
        snap["env.myst_config"] = _plain(cfg.as_dict())
    for name in list(app.config.values):
        if name.startswith("myst_"):
            snap["conf." + name] = _plain(getattr(app.config, name))
    return snap


def _plain(x):
    if isinstance(x, dict):
        return {str(k): _plain(v) for k, v in sorted(x.items(), key=lambda kv: str(kv[0]))}
    if isinstance(x, (set, frozenset)):
        return sorted(_plain(v) for v in x)
    if isinstance(x, (list, tuple)):
        return [_plain(v) for v in x]
    if callable(x):
        return getattr(x, "__qualname__", repr(x))
    return x


def plain(x):
    return _plain(x)


def write_tree(root: str, files: dict) -> None:
    """Materialise a {relative path: text | {"hex": ...} | {"dir": true}} mapping under root."""
    for rel, content in files.items():
        p = os.path.join(root, rel)
        if isinstance(content, dict) and content.get("dir"):
            os.makedirs(p, exist_ok=True)
            continue
        os.makedirs(os.path.dirname(p), exist_ok=True)
        if isinstance(content, dict):
            data = bytes.fromhex(content["hex"])
        else:
            data = content.encode("utf-8", "surrogateescape")
        with open(p, "wb") as f:
            f.write(data)
