"""Seeded generator of Sphinx object inventories (v1 / v2), line-level mutations,
and read-schedule (cut-set) policies.

A *spec* is a JSON-able description from which the bytes are rebuilt deterministically;
replay files carry the spec, not the seed.
"""

from __future__ import annotations

import zlib

WORDS = [
    "foo", "bar", "baz", "qux", "alpha", "beta", "gamma", "index", "module", "Class",
    "func", "meth", "attr", "genindex", "search", "a", "b", "x1", "y_2", "z-3", "api",
]
UNI = ["naïve", "日本語", "Ünïcode", "ключ", "π", "café", "x→y", "emoji😀"]
TYPES_V2 = [
    "py:module", "py:class", "py:function", "py:method", "py:attribute", "std:label",
    "std:term", "std:doc", "std:cmdoption", "c:function", "js:data", "x:y:z", "rst:directive:option",
]
TYPES_V1 = ["mod", "class", "function", "method", "data", "exception", "attribute"]
# characters on which str.splitlines() splits but b"\n".split does not: never generated,
# Sphinx's own dump() collapses them and Sphinx's loader mis-splits on them (see DESIGN §3.5)
EXOTIC = "\x0b\x0c\x1c\x1d\x1e\x85\u2028\u2029\r"


def _name(rng, allow_space=True):
    k = rng.random()
    if k < 0.45:
        n = rng.choice(WORDS)
    elif k < 0.6:
        n = ".".join(rng.choice(WORDS) for _ in range(rng.randint(2, 4)))
    elif k < 0.7:
        n = rng.choice(UNI)
    elif k < 0.8 and allow_space:
        n = " ".join(rng.choice(WORDS + UNI) for _ in range(rng.randint(2, 4)))
    elif k < 0.86:
        n = rng.choice(WORDS) + ":" + rng.choice(WORDS)
    elif k < 0.9:
        n = rng.choice(WORDS) + rng.choice(["$", "*", "\\", "#", "(", ")", "[", "%"]) + rng.choice(WORDS)
    elif k < 0.93 and allow_space:
        n = rng.choice(WORDS) + " " + str(rng.randint(0, 99)) + " " + rng.choice(WORDS)  # digits inside a name
    elif k < 0.96:
        n = rng.choice(["$", "lib.$", "prompt-$", "a$$", "$start", "-", "--flag", "#anchor"])  # '$' / '-' at the edges
    else:
        n = rng.choice(WORDS) + str(rng.randint(0, 999))
    return n


def _location(rng, name):
    k = rng.random()
    if k < 0.3:
        return f"{rng.choice(WORDS)}.html#{name.replace(' ', '-')}"
    if k < 0.55:
        return f"{rng.choice(WORDS)}.html#$"
    if k < 0.65:
        return "$"
    if k < 0.75:
        return f"{rng.choice(WORDS)}/{rng.choice(WORDS)}.html"
    if k < 0.82:
        return f"lib/{rng.choice(UNI)}.html#module-$"
    if k < 0.9:
        return f"{rng.choice(WORDS)}.html#" + "x" * rng.randint(30, 200)
    return "index.html"


def _dispname(rng, name):
    k = rng.random()
    if k < 0.45:
        return "-"
    if k < 0.6:
        return name
    if k < 0.8:
        return " ".join(rng.choice(WORDS + UNI) for _ in range(rng.randint(1, 5)))
    if k < 0.88:
        return rng.choice(WORDS) + "  " + rng.choice(WORDS)  # inner double space
    if k < 0.94:
        return "- " + rng.choice(WORDS)  # starts with a dash but is not "-"
    return str(rng.randint(0, 5))


def gen_spec(rng, *, max_objects=60, tier="quick") -> dict:
    """Draw an inventory spec."""
    version = 1 if rng.random() < 0.22 else 2
    n = rng.choice([0, 1, 2, 3, 5, 8, 13, 21, 34, max_objects]) if rng.random() < 0.8 else rng.randint(0, max_objects)
    big = rng.random()
    if (tier == "thorough" and big < 0.06) or big < 0.008:
        # large tables: the compressed body (level 0 = stored) or the v1 text exceeds several _BUFSIZE reads, so
        # the default 16 KiB schedule is itself multi-chunk
        n = rng.choice([450, 900, 2000] if tier == "thorough" else [450])
    project = rng.choice(["proj", "My Project", "Ünï Proj", "", "p", "Acme: The Toolkit", " lead space", "a  b",
                          "x:y:z", "#hash # Project: inner", "tab\there"])
    if rng.random() < 0.12:
        project = "long " + "n" * rng.choice([900, 1100, 2500, 4000])  # header line longer than ~1000 bytes
    pversion = rng.choice(["1.0", "", "2.3.4rc1", "β", "0", "2:1.4.0", "2024-01-01T10:30:00", " 1.0", "1.0 beta: two"])
    lines: list[str] = []
    keys: list[tuple[str, str]] = []
    for _ in range(n):
        if version == 2:
            typ = rng.choice(TYPES_V2)
            if keys and rng.random() < 0.18:  # duplicate an earlier key (any type, incl. py:module)
                name, typ = rng.choice(keys)
            elif keys and rng.random() < 0.08:
                name = rng.choice(keys)[0].swapcase()  # case variant (std:label / std:term matter)
                typ = rng.choice(["std:label", "std:term"])
            else:
                name = _name(rng)
            if rng.random() < 0.25:
                typ = "py:module" if rng.random() < 0.5 else typ
            prio = rng.choice(["1", "0", "-1", "2", "10", "1"])
            loc = _location(rng, name)
            disp = _dispname(rng, name)
            sep = rng.choice([" ", " ", " ", "  ", "\t"])
            lines.append(f"{name}{sep}{typ}{sep}{prio}{sep}{loc}{sep}{disp}")
            keys.append((name, typ))
        else:
            name = _name(rng, allow_space=False)
            if keys and rng.random() < 0.15:
                name = rng.choice(keys)[0]
            typ = rng.choice(TYPES_V1)
            loc = rng.choice(["api.html", "lib/x.html", "a b.html", rng.choice(UNI) + ".html", "mod.html"])
            sep1 = rng.choice([" ", " ", " ", "  ", "\t"])  # Sphinx splits v1 lines on any whitespace run
            lines.append(f"{name}{sep1}{typ}{rng.choice([' ', ' ', '   '])}{loc}")
            keys.append((name, typ))
    spec = {
        "version": version,
        "project": project,
        "pversion": pversion,
        "header_eol": rng.choice(["\n", "\n", "\n", "\r\n"]),
        "header_pad": rng.choice(["", "", "", " ", "  \t"]),
        "line_eol": rng.choice(["\n", "\n", "\n", "\n", "\r\n"]),
        "final_newline": True,
        "level": rng.choice([0, 1, 6, 9, 9]),
        "sync_after": sorted(rng.sample(range(n), k=min(n, rng.choice([0, 0, 1, 2, 5])))) if n else [],
        "trailing_garbage": "",
        "lines": lines,
        "mutated": [],
        "header_mutation": None,
    }
    return spec


MUTATIONS = [
    "drop_field", "type_no_colon", "prio_not_int", "blank_line", "ws_line", "no_final_newline",
    "invalid_utf8", "garbage_line", "bad_header", "not_compressed", "truncate_header", "unknown_version",
]


def mutate_spec(rng, spec: dict) -> dict:
    """Apply one or two line-level / header-level mutations (recorded in the spec)."""
    spec = {**spec, "lines": list(spec["lines"]), "mutated": list(spec["mutated"])}
    for _ in range(rng.choice([1, 1, 1, 2])):
        kind = rng.choice(MUTATIONS)
        n = len(spec["lines"])
        if kind in ("bad_header", "not_compressed", "truncate_header", "unknown_version"):
            if rng.random() < 0.5:
                spec["header_mutation"] = kind
            continue
        if kind == "no_final_newline":
            spec["final_newline"] = False
            continue
        if kind in ("blank_line", "ws_line", "garbage_line"):
            pos = rng.randint(0, n)
            text = {"blank_line": "", "ws_line": "  \t ", "garbage_line": rng.choice(
                ["garbage", "# comment", "one two", "a b c d e f g 1 h i", "x y:z notanumber loc -"])}[kind]
            spec["lines"].insert(pos, text)
            spec["mutated"] = [m + 1 if m >= pos else m for m in spec["mutated"]] + [pos]
            spec["sync_after"] = [s + 1 if s >= pos else s for s in spec["sync_after"]]
            continue
        if n == 0:
            continue
        i = rng.randrange(n)
        if i in spec["mutated"]:
            continue
        parts = spec["lines"][i].split()
        if kind == "drop_field" and len(parts) >= 3:
            del parts[rng.randrange(len(parts))]
            spec["lines"][i] = " ".join(parts)
        elif kind == "type_no_colon" and spec["version"] == 2 and len(parts) >= 5:
            # the type field is the one before the priority; find it from the right of a simple line
            for j, p in enumerate(parts):
                if ":" in p and j + 1 < len(parts) and parts[j + 1].lstrip("-").isdigit():
                    parts[j] = p.replace(":", "")
                    break
            spec["lines"][i] = " ".join(parts)
        elif kind == "prio_not_int" and spec["version"] == 2 and len(parts) >= 5:
            for j, p in enumerate(parts):
                if ":" in p and j + 1 < len(parts) and parts[j + 1].lstrip("-").isdigit():
                    parts[j + 1] = rng.choice(["x", "1.5", "", "one"])
                    break
            spec["lines"][i] = " ".join(p for p in parts if p != "" or True)
        elif kind == "invalid_utf8":
            s = spec["lines"][i]
            cut = rng.randint(0, len(s))
            bad = rng.choice([b"\xff", b"\xc3", b"\xe6\x97", b"\x80"]).decode("utf-8", "surrogateescape")
            spec["lines"][i] = s[:cut] + bad + s[cut:]
        else:
            continue
        spec["mutated"].append(i)
    spec["mutated"] = sorted(set(spec["mutated"]))
    return spec


def clean_spec(spec: dict) -> dict:
    """The same inventory without its mutated lines and with a well-formed envelope."""
    keep = [ln for i, ln in enumerate(spec["lines"]) if i not in set(spec["mutated"])]
    return {**spec, "lines": keep, "mutated": [], "final_newline": True, "header_mutation": None,
            "sync_after": [], "trailing_garbage": ""}


def _enc(s: str) -> bytes:
    return s.encode("utf-8", "surrogateescape")


def serialise(spec: dict) -> tuple[bytes, dict]:
    """Bytes of the inventory file plus boundary marks (absolute offsets)."""
    heol, pad = spec["header_eol"], spec["header_pad"]
    v = spec["version"]
    hm = spec.get("header_mutation")
    first = f"# Sphinx inventory version {v}"
    if hm == "bad_header":
        first = "# Sphinx inventory vers1on"
    elif hm == "unknown_version":
        first = "# Sphinx inventory version 3"
    header_lines = [first + pad, f"# Project: {spec['project']}" + pad, f"# Version: {spec['pversion']}" + pad]
    if v == 2:
        z = "# The remainder of this file is compressed using zlib."
        if hm == "not_compressed":
            z = "# The remainder of this file is plain."
        header_lines.append(z + pad)
    if hm == "truncate_header":
        header_lines = header_lines[:2]
    header = b"".join(_enc(h + heol) for h in header_lines)
    if hm == "truncate_header":
        header = header.rstrip(b"\r\n")
        return header, _marks(header, len(header), [], v)
    n = len(spec["lines"])
    body_lines = []
    for i, ln in enumerate(spec["lines"]):
        eol = spec["line_eol"]
        if i == n - 1 and not spec["final_newline"]:
            eol = ""
        body_lines.append(_enc(ln + eol))
    sync_points: list[int] = []
    if v == 2:
        comp = zlib.compressobj(spec["level"])
        out = bytearray()
        sync_after = set(spec["sync_after"])
        for i, bl in enumerate(body_lines):
            out += comp.compress(bl)
            if i in sync_after:
                out += comp.flush(zlib.Z_SYNC_FLUSH)
                sync_points.append(len(header) + len(out))
        out += comp.flush()
        body = bytes(out)
    else:
        body = b"".join(body_lines)
    data = header + body + _enc(spec.get("trailing_garbage", ""))
    return data, _marks(data, len(header), sync_points, v)


def _marks(data: bytes, body_start: int, sync_points: list[int], version: int) -> dict:
    nl = []
    pos = -1
    for _ in range(4 if version == 2 else 3):
        pos = data.find(b"\n", pos + 1)
        if pos < 0 or pos >= max(body_start, 1):
            break
        nl.append(pos)
    text_end = body_start if version == 2 else len(data)
    multibyte = [i for i in range(min(text_end, len(data))) if data[i] & 0xC0 == 0x80][:50]
    return {"header_newlines": nl, "body_start": body_start, "sync_points": sync_points,
            "multibyte": multibyte, "size": len(data)}


# ------------------------------------------------------------------ read schedules (cut-sets)

POLICIES = ["whole", "fixed", "fixed", "random", "random", "boundary", "boundary", "one_byte_prefix"]


def gen_cuts(rng, marks: dict, policy: str | None = None) -> tuple[str, list[int]]:
    """A cut-set: absolute offsets at which a read must end (a read never spans a cut)."""
    size = marks["size"]
    policy = policy or rng.choice(POLICIES)
    if size <= 1 or policy == "whole":
        return "whole", []
    if policy == "fixed":
        k = rng.choice([1, 2, 3, 7, 64, 4096])
        return f"fixed{k}", {"range": [k, size, k]}
    if policy == "random":
        k = rng.choice([2, 5, 16, 100, 1000])
        cuts, p = [], 0
        while True:
            p += rng.randint(1, k)
            if p >= size:
                break
            cuts.append(p)
        return f"random{k}", cuts
    if policy == "one_byte_prefix":
        # byte-at-a-time through the header region (and a little beyond), whole reads afterwards
        upto = min(size - 1, marks["body_start"] + rng.choice([0, 1, 2, 16]))
        return "one_byte_prefix", {"range": [1, upto + 1, 1]}
    # boundary-seeking
    cand: set[int] = set()
    for p in marks["header_newlines"]:
        cand.update((p, p + 1, p + 2))
    b = marks["body_start"]
    cand.update((b - 1, b, b + 1, b + 2))
    for s in marks["sync_points"]:
        cand.update((s - 1, s, s + 1))
    for m in marks["multibyte"]:
        cand.add(m)
    cand.update((size - 1, size - 2))
    cand = sorted(c for c in cand if 0 < c < size)
    if not cand:
        return "boundary", []
    k = rng.randint(1, min(len(cand), 6))
    return "boundary", sorted(rng.sample(cand, k))
