"""Seeded generator of MyST documents, configurations and multi-document projects.

Block grammar with an *error vocabulary* (so that error-recovery paths are in flight when
faults land) and the constructs that touch shared state or I/O (include in both spellings,
figure-md, front-matter overrides, inv: links, cross-document links, numbered math).

Everything returned is plain JSON-able data; nothing here imports myst_parser.

Generator restrictions that keep *upstream* (docutils / Sphinx) process-global behaviour out of
the verdict (DESIGN §5.6) are marked with ``# §5.6``.
"""

from __future__ import annotations

EXTENSIONS = [
    "amsmath", "attrs_inline", "attrs_block", "colon_fence", "deflist", "dollarmath", "fieldlist",
    "html_admonition", "html_image", "replacements", "smartquotes", "strikethrough", "substitution",
    "tasklist",
]  # "linkify" needs linkify-it-py (not importable here); "attrs_image" is deprecated (adds a warning only)

WORDS = ["alpha", "beta", "gamma", "delta", "lorem", "ipsum", "dolor", "sit", "amet", "quux", "zeta",
         "naïve", "日本", "x_y", "it's", "\"quoted\"", "a--b", "(c)", "1/2", "...", "foo*bar", "tail\\"]
TITLES = ["Intro", "Usage", "Usage", "API", "a b", "Intro", "Énoncé", "Notes & more", "x", "`code` title"]
LANGS = ["python", "c", "", "text", "unknownlang", "yaml", "{code-block} python"]
ADMON = ["note", "warning", "tip", "important", "admonition", "seealso", "hint"]


class Ctx:
    """What a document may refer to."""

    def __init__(self, docname="doc", other_docs=(), include_files=(), labels=None, ext=(), front_end="docutils",
                 inventories=(), features=None, link_files=()):
        self.docname = docname
        self.other_docs = list(other_docs)  # docnames (with directories) of sibling documents
        self.include_files = list(include_files)  # paths relative to this document's directory
        self.link_files = list(link_files)  # non-document files that links may point at
        self.labels = labels if labels is not None else []
        self.ext = set(ext)
        self.front_end = front_end
        self.inventories = list(inventories)
        self.features = features  # None = everything enabled
        self.allow_labels = True  # §5.6: include files (possibly included twice) carry no explicit labels
        self.fn = 0
        self.lab = 0
        self.eq = 0
        self.term = 0
        self.footnotes_defined: list[str] = []

    def on(self, feature: str) -> bool:
        return self.features is None or feature in self.features

    def new_label(self) -> str:
        if not self.allow_labels:
            return ""
        self.lab += 1
        lab = f"{self.docname.replace('/', '-')}-lab{self.lab}"  # §5.6 project-unique labels
        self.labels.append(lab)
        return lab


def words(r, lo=2, hi=8):
    return " ".join(r.choice(WORDS) for _ in range(r.randint(lo, hi)))


# ------------------------------------------------------------------ inline


def inline(r, c: Ctx, depth=0) -> str:
    k = r.random()
    w = words(r, 1, 4)
    if k < 0.30 or depth > 1:
        return w
    if k < 0.36:
        return f"*{inline(r, c, depth + 1)}*"
    if k < 0.42:
        return f"**{inline(r, c, depth + 1)}**"
    if k < 0.47:
        return f"`{r.choice(['code', 'a b', 'x*y', '{role}'])}`"
    if k < 0.52:
        return r.choice([f"[{inline(r, c, depth + 1)}](https://example.com/{r.choice(WORDS[:6])})",
                         f"[{w}](wiki:Some_Page#sec)", "<wiki:Auto>", f"[{w}](http://h.example/{r.choice(WORDS[:6])})",
                         f"[{inline(r, c, depth + 1)}](https://example.com/{r.choice(WORDS[:6])})"])
    if k < 0.58 and c.on("anchor_links"):
        tgt = r.choice(["intro", "usage", "usage-1", "api", "missing-anchor", "a-b"] + c.labels[-3:])
        return r.choice([f"[{w}](#{tgt})", f"[](#{tgt})", f"<project:#{tgt}>"])
    if k < 0.66 and c.other_docs and c.on("doc_links"):
        d = r.choice(c.other_docs)
        rel = _rel(c.docname, d)
        form = r.choice([f"{rel}.md", f"{rel}.md#usage", f"{rel}.md#intro", f"./{rel}.md", f"/{d}.md",
                         f"{rel}", f"{rel}.md#nope", f"{rel}.txt"])
        style = r.random()
        if style < 0.5:
            return f"[{w}]({form})"
        if style < 0.75:
            return f"[]({form})"
        return f"<project:{form}>"
    if k < 0.70 and c.link_files and c.on("file_links"):
        f = r.choice(c.link_files)
        return r.choice([f"[{w}]({f})", f"<path:{f}>", f"[]({f})"])
    if k < 0.74 and c.on("unknown_links"):
        return r.choice([f"[{w}](nonexistent-target)", f"[{w}](no/such/file.md)", "[](unknown)",
                         f"[{w}](<spaced target>)", f"[{w}](#)", f"[{w}]()"])
    if k < 0.78 and c.inventories and c.on("inv_links"):
        key = r.choice(c.inventories + ["nokey", "*"])
        tgt = r.choice(["index", "foo", "mod*", "genindex", "nomatch", "Class", "*"])
        return r.choice([f"<inv:{key}#{tgt}>", f"[{w}](inv:{key}:std:label#{tgt})", f"<inv:#{tgt}>",
                         f"<inv:{key}:*:*#{tgt}>", f"[](inv:{key}:py:*#{tgt})"])
    if k < 0.82 and c.on("footnotes"):
        c.fn += 1
        name = r.choice(["a", "b", "1", "note", f"f{c.fn}", "2", "10", "²", "١", "a b", "-1", "1.5"])
        return f"{w}[^{name}]"
    if k < 0.86 and c.on("roles"):
        return r.choice([
            f"{{abbr}}`{w} (expl)`", f"{{sub}}`{w}`", f"{{literal}}`x = 1`", f"{{math}}`a^2`", f"{{emphasis}}`{w}`",
            # §5.6: no {code} role - Sphinx re-registers it in docutils' canonical role registry for good
            f"{{nonexistentrole}}`{w}`", f"{{ref}}`{r.choice(c.labels) if c.labels else 'nolabel'}`",
            "{raw}`<b>x</b>`", f"{{doc}}`{r.choice(c.other_docs) if c.other_docs else 'index'}`",
            f"{{eq}}`{c.docname.replace('/', '-')}-eq1`", "{sub-ref}`wordcount-words`", f"{{term}}`noterm`",
            "{pep}`8`", "{rfc}`2822`", f"{{title-reference}}`{w}`",
        ])
    if k < 0.89 and "substitution" in c.ext and c.on("substitutions"):
        return r.choice(["{{ key1 }}", "{{key2}}", "{{ undefined_key }}", "{{ key1 | upper }}", "{{ cyc_a }}",
                         "||key1||", "[[ key2 ]]", "{{ key1 }} and ||key1||",
                         "{{ 1 + }}", "{{ env.docname }}" if c.front_end == "sphinx" else "{{ key1 }}",
                         "{{ wordcount_fake }}", "{{ key_dir }}", "{{ key1.missing.attr }}"])
    if k < 0.92 and "dollarmath" in c.ext:
        return r.choice(["$a=1$", "$$b$$", "$ spaced $", "1$ x $2"])
    if k < 0.95 and c.on("html_inline"):
        return r.choice(["<span class=\"x\">s</span>", "<b>b</b>", "<img src=\"img.png\" alt=\"a\">",
                         "<img src=img.png height>", "<br>", "<!-- c -->", "<unclosed", "<a href='x'>",
                         "<img src>", "<img class src=\"img.png\">"])
    if k < 0.97 and "attrs_inline" in c.ext:
        return r.choice([f"[{w}]{{.cls #{c.new_label()}}}" if c.allow_labels else f"[{w}]{{.cls}}", "`c`{.lang}", "![a](img.png){width=10px}",
                         f"[{w}]{{bad=}}", f"[{w}](https://x.y){{target=_blank}}",
                         f"[{w}](https://example.com/a){{.important}}", f"[{w}](wiki:Page#frag){{.wl .x}}",
                         "<https://example.com/b>{.auto}", f"[{w}](http://h.example/p){{#{c.new_label()} .k}}"
                         if c.allow_labels else f"[{w}](http://h.example/p){{.k}}"])
    if k < 0.985 and "strikethrough" in c.ext:
        return f"~~{w}~~"
    return r.choice([f"{w}\\\n{w}", f"{w}  \n{w}", "&amp; &copy; &#35;", "<https://auto.link>", "![alt](img.png)",
                     "![](missing.png \"title\")", f"[ref-{r.randint(1, 3)}]", "[undefined ref][nope]"])


def _rel(src_doc: str, dst_doc: str) -> str:
    import posixpath

    return posixpath.relpath(dst_doc, posixpath.dirname(src_doc) or ".")


def para(r, c: Ctx) -> str:
    return " ".join(inline(r, c) for _ in range(r.randint(1, 4)))


# ------------------------------------------------------------------ blocks


def _indent(text: str, pad: str) -> str:
    return "\n".join((pad + ln) if ln else ln for ln in text.split("\n"))


def block(r, c: Ctx, depth=0) -> str:  # noqa: C901
    kinds = [k for k in BLOCKS if c.on(k[0])]
    name, fn, weight = r.choices(kinds, weights=[k[2] for k in kinds])[0]
    if depth >= 3 and name in NESTING:
        return para(r, c)
    return fn(r, c, depth)


def b_heading(r, c, depth):
    lvl = r.choice([1, 2, 2, 3, 3, 4, 6])
    return "#" * lvl + " " + r.choice(TITLES)


def b_para(r, c, depth):
    return para(r, c)


def b_list(r, c, depth):
    marker = r.choice(["- ", "* ", "1. ", "3) "])
    items = []
    for _ in range(r.randint(1, 3)):
        body = para(r, c) if r.random() < 0.7 else block(r, c, depth + 1)
        items.append(marker + _indent(body, " " * len(marker))[len(marker):])
    return "\n".join(items)


def b_quote(r, c, depth):
    return _indent(block(r, c, depth + 1), "> ").replace("\n\n", "\n>\n")


def b_fence(r, c, depth):
    tick = r.choice(["```", "~~~", "````"])
    return f"{tick}{r.choice(LANGS)}\n{words(r)}\n  indented {{braces}}\n{tick}"


def _fence(r, c, name, arg, opts, body, colon=None):
    colon = ("colon_fence" in c.ext and r.random() < 0.4) if colon is None else colon
    tick = (":::" if colon else "```") + r.choice(["", "", ":" if colon else "`"])
    if len(tick) == 3 and ("```" in body or ":::" in body):
        tick = tick[0] * 5
    if "`````" in body or ":::::" in body:
        tick = tick[0] * 7
    style = r.random()
    opt_lines = ""
    if opts:
        if style < 0.5:
            opt_lines = "".join(f":{k}: {v}\n" for k, v in opts.items())
        else:
            opt_lines = "---\n" + "".join(f"{k}: {v}\n" for k, v in opts.items()) + "---\n"
    sep = "\n" if (opts and body and r.random() < 0.7) else ""
    head = f"{tick}{{{name}}}" + (f" {arg}" if arg else "")
    return f"{head}\n{opt_lines}{sep}{body}\n{tick}".replace("\n\n\n", "\n\n")


def b_admonition(r, c, depth):
    name = r.choice(ADMON)
    arg = words(r, 1, 3) if name == "admonition" else r.choice(["", "", "extra title text"])
    opts = {}
    if r.random() < 0.4:
        opts["class"] = r.choice(["tip", "my-class", "a b"])
    if r.random() < 0.2 and c.allow_labels:
        opts["name"] = c.new_label()
    if r.random() < 0.12:
        opts[r.choice(["unknownopt", "class"])] = r.choice([
            "[unclosed", "'a", "&ref", "*ali", "{a: 1}", "x", "\"\\UFFFFFFFF\"", "\"\\U0011FFFF\"", "\"\\uD800\"",
            "\"\\x4\"", "\"\\q\"", "\"unterminated", "| block", "> folded", "!!tag x", "\"a\\\nb\""])
    body = "\n\n".join(block(r, c, depth + 1) for _ in range(r.randint(1, 2)))
    return _fence(r, c, name, arg, opts, body)


def b_directive_misc(r, c, depth):
    k = r.randrange(16)
    lab = c.docname.replace("/", "-")
    if k == 0:
        return _fence(r, c, "code-block", r.choice(["python", "", "c"]),
                      {"linenos": "", "emphasize-lines": r.choice(["1", "1,2", "9", "x"])}, "a = 1\nb = 2", colon=False)
    if k == 1:
        return _fence(r, c, "image", r.choice(["img.png", "https://x.y/i.png", "", "missing img.png"]),
                      {"alt": words(r, 1, 2), "width": r.choice(["100px", "50%", "wide"])}, "")
    if k == 2:
        return _fence(r, c, "figure", "img.png", {"name": c.new_label()} if c.allow_labels else {}, para(r, c))
    if k == 3:
        return _fence(r, c, "list-table", words(r, 1, 2), {"header-rows": r.choice(["1", "0", "x"])},
                      "* - a\n  - b\n* - c\n  - d" + r.choice(["", "\n* - only one"]))
    if k == 4:
        return _fence(r, c, "math", "", {"label": f"{lab}-eq{r.randint(1, 2)}"} if (
            r.random() < 0.3 and c.allow_labels) else {}, "a^2 + b^2")
    if k == 5:
        return _fence(r, c, "topic", words(r, 1, 2), {}, para(r, c))
    if k == 6:
        return _fence(r, c, "contents", "", {"depth": "2"}, "")
    if k == 7:
        return _fence(r, c, r.choice(["nonexistent-directive", "notedirective", "tip2"]), "x", {}, para(r, c))
    if k == 8:
        return _fence(r, c, "note", "", {}, "")  # content required -> error
    if k == 9:
        return _fence(r, c, "image", "", {}, "")  # argument required -> error
    if k == 10:
        return _fence(r, c, "csv-table", "T", {"header": "a,b"}, "1,2\n3,\"4")
    if k == 11:
        return _fence(r, c, "parsed-literal", "", {}, f"lit *{words(r, 1, 2)}*")
    if k == 12:
        return _fence(r, c, "raw", r.choice(["html", "latex", ""]), {}, "<hr/>")
    if k == 13:
        return _fence(r, c, "container", "cls", {}, para(r, c))
    if k == 14:
        return _fence(r, c, "rubric", words(r, 1, 2), {}, "")
    return _fence(r, c, r.choice(["versionadded", "deprecated", "only"]), r.choice(["1.0", "html"]), {}, para(r, c))


def b_eval_rst(r, c, depth):
    k = r.random()
    if k < 0.45 and c.include_files and c.on("includes"):
        f = r.choice(c.include_files)
        # §5.6: an include file may be included by several documents, and parsed as rST its Markdown text can
        # form section titles, i.e. project-wide labels that Sphinx de-duplicates by read/merge order (upstream
        # behaviour): rST includes are therefore literal/code, or carry a MyST-only option (an error in rST)
        opt = r.choice(["   :literal:\n", "   :literal:\n", "   :heading-offset: 1\n", "   :relative-images:\n",
                        "   :literal:\n   :start-line: 1\n", "   :code: python\n", "   :relative-docs: x\n",
                        "   :code: text\n   :end-line: 3\n"])
        return f"```{{eval-rst}}\n.. include:: {f}\n{opt}```"
    body = r.choice([
        "A *rst* paragraph with ``literal``.",
        ".. note::\n\n   rst note",
        # §5.6: an rST section title becomes an explicit (project-wide) label, so it must be unique
        (f"Rst {c.new_label()}\n" + "-" * 40 + "\n\ntext") if c.allow_labels else "plain rst text",
        ".. unknown-rst-directive::\n\n   x",
        ":unknownrole:`x` and `interpreted`",
        "* item\n* item",
        ".. image:: img.png",
        "Broken *emphasis",
        ".. raw:: html\n\n   <b>x</b>",
    ])
    return f"```{{eval-rst}}\n{body}\n```"


def b_include(r, c, depth):
    files = c.include_files + ["no-such-file.inc"] if r.random() < 0.15 else c.include_files
    if not files:
        return para(r, c)
    f = r.choice(files)
    opts = {}
    k = r.random()
    if r.random() < 0.1:  # malformed include directives: no argument, bad option values
        return r.choice(["```{include}\n```", f"```{{include}} {f}\n:start-line: abc\n```",
                         f"```{{include}} {f}\n:heading-offset: -1\n```", f"```{{include}} {f}\n:tab-width: x\n```",
                         "```{include}\n:literal:\n```", f"```{{include}} {f}\n:relative-docs:\n```",
                         f"```{{include}} {f}\n:end-before:\n```"])
    if k < 0.12:
        opts["literal"] = ""
    elif k < 0.2:
        opts["code"] = "python"
    elif k < 0.3:
        opts["heading-offset"] = str(r.randint(0, 2))
    elif k < 0.38:
        opts["relative-images"] = ""
    elif k < 0.46:
        opts["relative-docs"] = r.choice(["", "sub/", "."])
    elif k < 0.54:
        opts["start-line"] = str(r.randint(0, 3))
        if r.random() < 0.5:
            opts["end-line"] = str(r.randint(2, 6))
    elif k < 0.6:
        opts["start-after"] = r.choice(["alpha", "MARK", "nomatchtext"])
    elif k < 0.64:
        opts["encoding"] = r.choice(["utf-8", "latin-1", "ascii", "no-such-codec"])
    elif k < 0.68:
        opts["number-lines"] = r.choice(["", "3", "x"])
        opts["literal"] = ""
    elif k < 0.72:
        opts["bogus-option"] = "1"
    return _fence(r, c, "include", f, opts, "")


def b_figure_md(r, c, depth):
    arg = c.new_label() if (r.random() < 0.6 and c.allow_labels) else ""
    opts = {"class": "myclass"} if r.random() < 0.3 else {}
    body = r.choice([
        "<img src=\"img.png\" alt=\"fishy\" width=\"200px\">\n\nThis is a caption in **Markdown**",
        "![alt](img.png)\n\nCaption " + words(r, 1, 3),
        "no image here\n\ncaption",
        "<img src=\"img.png\">",
    ])
    return _fence(r, c, "figure-md", arg, opts, body)


def b_target(r, c, depth):
    if not c.allow_labels:
        return para(r, c)
    return f"({c.new_label()})=\n" + r.choice(["## " + r.choice(TITLES), para(r, c)])


def b_footnote_def(r, c, depth):
    name = r.choice(["a", "b", "1", "note", "unused", f"f{r.randint(1, 4)}", "2", "10", "²", "١", "-1", "1.5"])
    c.footnotes_defined.append(name)
    return f"[^{name}]: {words(r)}" + r.choice(["", "\n\n    continued para"])


def b_refdef(r, c, depth):
    n = r.randint(1, 3)
    return f"[ref-{n}]: https://example.com/{n} \"T\""


def b_html(r, c, depth):
    nm = f" name=\"{c.new_label()}\"" if c.allow_labels else ""  # §5.6 project-unique names
    return r.choice([
        f"<div class=\"admonition note\"{nm}>\n<p class=\"title\">HTML title</p>\n<p>para *md*</p>\n</div>",
        "<div class=\"admonition\">\nno title\n</div>",
        f"<img src=\"img.png\" alt=\"a\" class=\"c1 c2\" width=\"10\" height=\"x\"{nm}>",
        "<img src=\"img.png\" alt>",
        "<div>\n\n*md inside*\n\n</div>",
        "<table><tr><td>x</td></tr></table>",
        "<!-- comment -->",
        "<div class=\"admonition\"><div></p></div>",
        "<?php echo 1 ?>",
        "<script>alert(1)</script>",
        "<img src>", "<img src alt=x>", "<img alt>", "<div class>\nx\n</div>", "<div class name>\n<p class>t</p>\n</div>",
        "<div class=\"admonition\" name>\nx\n</div>", "<img src=\"img.png\" width class name align>",
        "<div>\n<![x] foo>\n</div>", "<div class=\"admonition\">\n<img src>\n</div>",
    ])


def b_math(r, c, depth):
    lab = c.docname.replace("/", "-")
    k = r.random()
    if k < 0.4 and "dollarmath" in c.ext:
        c.eq += 1
        if not c.allow_labels:
            return r.choice(["$$\nb = 2\n$$", "$$ c $$"])
        return r.choice([f"$$\na = {c.eq}\n$$ ({lab}-eq{c.eq})", "$$\nb = 2\n$$", "$$ c $$"])
    if "amsmath" in c.ext:
        return r.choice(["\\begin{equation}\na = 1\n\\end{equation}", "\\begin{align*}\nb &= 2\n\\end{align*}",
                         "\\begin{gather}\nc\n\\end{gather}"])
    return "$$\nnot math without the extension\n$$"


def b_deflist(r, c, depth):
    if "deflist" in c.ext:
        return f"Term {words(r, 1, 2)}\n: Definition {para(r, c)}\n\nTerm 2\n: Def 2"
    if "fieldlist" in c.ext:
        return f":field name: {para(r, c)}\n:other: body"
    if "tasklist" in c.ext:
        return "- [ ] todo\n- [x] done\n- [?] odd"
    return "Term\n: not a deflist"


def b_table(r, c, depth):
    return r.choice([
        f"| a | b |\n|---|:-:|\n| {inline(r, c)} | 2 |",
        "| a | b |\n|---|---|\n| 1 |\n| 1 | 2 | 3 |",
        "a | b\n- | -\n1 | 2",
    ])


def b_misc(r, c, depth):
    return r.choice([
        "---", "+++ {\"meta\": 1}", "+++", "% a comment line", "***",
        "    indented code",
        "Setext\n======",
        "{{ key_block }}" if "substitution" in c.ext else "text",
        ("{.cls #" + c.new_label() + "}\nA paragraph with block attrs") if (
            "attrs_block" in c.ext and c.allow_labels) else "text",
        "{bad attrs\ntext",
        "\\",
        "&nbsp;",
        "\t tab-led line",
        "```\nunclosed fence",
    ])


NESTING = {"list", "quote", "admonition"}
BLOCKS = [
    ("heading", b_heading, 10), ("para", b_para, 22), ("list", b_list, 6), ("quote", b_quote, 4),
    ("fence", b_fence, 4), ("admonition", b_admonition, 8), ("directive_misc", b_directive_misc, 8),
    ("eval_rst", b_eval_rst, 6), ("includes", b_include, 7), ("figure_md", b_figure_md, 3),
    ("target", b_target, 4), ("footnotes", b_footnote_def, 4), ("refdef", b_refdef, 2), ("html", b_html, 5),
    ("math", b_math, 4), ("deflist", b_deflist, 3), ("table", b_table, 3), ("misc", b_misc, 4),
]
ALL_FEATURES = [b[0] for b in BLOCKS] + ["anchor_links", "doc_links", "file_links", "unknown_links", "inv_links",
                                          "roles", "substitutions", "html_inline", "front_matter",
                                          "front_matter_errors"]


# ------------------------------------------------------------------ front matter

FM_OVERRIDES_OK = [
    ("footnote_sort", "false"), ("footnote_transition", "false"), ("heading_anchors", "3"),
    ("enable_extensions", "[\"dollarmath\", \"deflist\"]"), ("enable_extensions", "[]"),
    ("title_to_header", "true"), ("substitutions", "{key1: \"fm *value*\", fm_only: 7}"),
    ("substitutions", "{key1: \"other **value**\", fm_only: 8}"), ("substitutions", "{key1: \"third\", key2: 3}"),
    ("html_meta", "{\"description lang=en\": \"another desc\", keywords: \"c, d\"}"),
    ("url_schemes", "{http: null, https: null, wiki: \"https://fm.wiki/{{path}}\"}"), ("url_schemes", "[http, https]"),
    ("heading_anchors", "1"), ("sub_delimiters", "[\"|\", \"|\"]"), ("suppress_warnings", "[\"myst.html\", \"myst.substitution\"]"),
    ("number_code_blocks", "[c]"), ("words_per_minute", "300"), ("heading_anchors", "null"),
    ("html_meta", "{\"description lang=en\": \"desc\", keywords: \"a, b\"}"), ("all_links_external", "true"),
    ("number_code_blocks", "[python]"), ("words_per_minute", "100"), ("enable_checkboxes", "true"),
    ("fence_as_directive", "[python]"), ("suppress_warnings", "[\"myst.header\"]"),
    ("url_schemes", "{http: null, https: null}"), ("highlight_code_blocks", "false"),
    ("dmath_double_inline", "true"), ("links_external_new_tab", "true"), ("disable_syntax", "[emphasis]"),
]
FM_OVERRIDES_BAD = [
    ("heading_anchors", "99"), ("enable_extensions", "[nonexistent_ext]"), ("footnote_sort", "maybe"),
    ("unknown_field", "1"), ("substitutions", "[a, b]"), ("html_meta", "{a: 1}"), ("url_schemes", "7"),
    ("words_per_minute", "fast"), ("sub_delimiters", "[\"{\", \"}}\"]"), ("inventories", "{k: 1}"),
    ("heading_slug_func", "not.a.module.func"), ("fence_as_directive", "5"), ("words_per_minute", "0"),
    ("words_per_minute", "-5"), ("heading_anchors", "2.5"), ("enable_extensions", "null"), ("substitutions", "null"),
]
FM_BROKEN = [
    "---\na: [unclosed\n---\n", "---\n&a *a\n---\n", "---\n- just\n- a list\n---\n", "---\njust a string\n---\n",
    "---\nmyst: not-a-dict\n---\n", "---\nk: !!python/object:os.system x\n---\n", "---\na: b: c\n---\n",
    "---\n\"unterminated\n---\n", "---\nmyst:\n  substitutions: 5\nhtml_meta: 3\n---\n", "---\nx: *undefined_alias\n---\n",
    "---\n? [complex, key]\n: v\n---\n", "---\n---\n", "---\nsubstitutions:\n  key1: top-level\n---\n",
    # values YAML constructs into non-JSON types, or refuses with a non-YAML error
    "---\nwhen: [2020-01-01]\n---\n", "---\nblob: !!binary aGVsbG8=\n---\n", "---\ntags: !!set {x, y}\n---\n",
    "---\nwhen: 2020-13-45\n---\n", "---\nbig: " + "9" * 5000 + "\n---\n", "---\ndeep: " + "[" * 3000 + "\n---\n",
    "---\nwhen: 2020-01-01\nat: 12:30:45\nmap: {1: 2, null: 3}\nfloat: .inf\n---\n",
]


def front_matter(r, c: Ctx) -> str:
    house = getattr(c, "house_front_matter", None)
    if house is not None and r.random() < 0.45:
        # several documents of one project carry the very same front matter (a "house style"), or the same
        # 'myst:' section with different deprecated top-level keys: anything memoised per front matter shows
        return house if r.random() < 0.6 else _with_top_level_keys(r, house)
    k = r.random()
    if k < 0.18 and c.on("front_matter_errors"):
        return r.choice(FM_BROKEN)
    lines = ["---"]
    if r.random() < 0.2:
        lines.append("substitutions: {key1: \"" + r.choice(["top one", "top two", "top *three*"]) + "\", top_only: "
                     + r.choice(["1", "2"]) + "}")
    if r.random() < 0.12:
        lines.append("html_meta: {description: \"" + r.choice(["top desc A", "top desc B"]) + "\"}")
    if r.random() < 0.5:
        lines.append("title: " + r.choice(["FM Title", "x - y", "'q'"]))
    if r.random() < 0.3:
        lines.append(r.choice(["author: me", "date: 2020-01-01", "orphan: true", "tocdepth: 2", "nested: {a: [1, 2]}"]))
    pool = list(FM_OVERRIDES_OK)
    if c.on("front_matter_errors") and r.random() < 0.35:
        pool = pool + FM_OVERRIDES_BAD * 2
    n = r.choice([0, 1, 1, 2, 3])
    if n:
        lines.append("myst:")
        seen = set()
        for _ in range(n):
            key, val = r.choice(pool)
            if key in seen:
                continue
            seen.add(key)
            lines.append(f"  {key}: {val}")
    lines.append("---")
    return "\n".join(lines) + "\n"


def _with_top_level_keys(r, fm: str) -> str:
    extra = r.choice(["substitutions: {key1: \"house one\"}\n", "substitutions: {key1: \"house two\"}\n",
                      "html_meta: {description: \"house A\"}\n", "html_meta: {description: \"house B\"}\n"])
    if fm.startswith("---\n") and fm.count("---") >= 2:
        return "---\n" + extra + fm[4:]
    return fm


def house_front_matter(r, ext=()) -> str:
    """One front matter that several documents of a project share."""
    k = r.random()
    if k < 0.25:
        return "---\ntitle: House\n---\n"
    if k < 0.45:  # identical front matter that produces a warning in every document that carries it
        key, val = r.choice(FM_OVERRIDES_BAD)
        return f"---\nmyst:\n  {key}: {val}\n---\n"
    if k < 0.55 and "substitution" in ext:
        # the same keys/extension set, different substitution delimiters (bound into the plugin at parser creation)
        return ("---\nmyst:\n  sub_delimiters: " + r.choice(['["|", "|"]', '["[", "]"]']) + "\n---\n\n"
                "Delimited ||key1|| [[key1]] {{ key1 }}\n")
    if k < 0.8:  # file-level-only extensions: the global configuration does not enable them
        want = [e for e in ("dollarmath", "amsmath", "deflist", "colon_fence") if e not in ext] or ["dollarmath"]
        return "---\nmyst:\n  enable_extensions: [" + ", ".join(r.sample(want, k=min(len(want), 2))) + "]\n---\n"
    key, val = r.choice(FM_OVERRIDES_OK)
    return f"---\nmyst:\n  {key}: {val}\n---\n"


# ------------------------------------------------------------------ documents


def gen_doc(r, c: Ctx, n_blocks=None, with_front_matter=None) -> str:
    n = n_blocks if n_blocks is not None else r.choice([3, 5, 8, 12, 18, 25])
    parts = []
    fm = (r.random() < 0.45 and c.on("front_matter")) if with_front_matter is None else with_front_matter
    if fm:
        parts.append(front_matter(r, c))
    if r.random() < 0.8:
        parts.append("# " + r.choice(TITLES))
    for _ in range(n):
        parts.append(block(r, c))
    # define some of the referenced footnotes / references so that both hit and miss paths run
    if c.fn and r.random() < 0.8 and c.on("footnotes"):
        for name in r.sample(["a", "b", "1", "note"], k=r.randint(1, 3)):
            parts.append(f"[^{name}]: def of {name}")
    text = "\n\n".join(p.rstrip("\n") if not p.startswith("---\n") or i else p for i, p in enumerate(parts))
    if parts and parts[0].startswith("---"):
        text = parts[0] + "\n" + "\n\n".join(parts[1:])
    return text + r.choice(["\n", "\n", ""])


def gen_include_file(r, c: Ctx) -> str:
    """Content for an include target (non-source suffix)."""
    k = r.random()
    sub = Ctx(c.docname + "-inc", c.other_docs, [], c.labels, c.ext, c.front_end, c.inventories, c.features,
              c.link_files)
    sub.allow_labels = False
    if k < 0.1:
        return ""
    if k < 0.2:
        return "alpha\nMARK\n# Included title\n\nbeta ![img](img.png) [doc](sub/other.md)\n"
    return gen_doc(r, sub, n_blocks=r.choice([1, 2, 4, 6]), with_front_matter=r.random() < 0.15)


# ------------------------------------------------------------------ configuration


def gen_config(r, front_end="docutils", inventories=None, rich=False) -> dict:
    """MdParserConfig keyword values (JSON-able). ``rich`` draws the rarer fields about three times as often
    (configuration-dependent recovery paths) and adds a few fields the plain mode never sets."""
    if rich:
        plain = r.random

        class _Boost:
            """random() that makes every 'rare field' threshold about three times as likely to pass."""

            def __getattr__(self, name):
                return getattr(r, name)

            def random(self):
                return plain() / 3.0

        cfg = gen_config(_Boost(), front_end, inventories, rich=False)
        k = plain()  # the extension subset keeps its ordinary distribution
        cfg["enable_extensions"] = [] if k < 0.1 else list(EXTENSIONS) if k < 0.3 else sorted(
            r.sample(EXTENSIONS, k=r.randint(1, len(EXTENSIONS) - 1)))
        if "substitution" not in cfg["enable_extensions"]:
            cfg.pop("sub_delimiters", None)
        if plain() < 0.3:
            cfg["links_external_new_tab"] = True
        if plain() < 0.2:
            cfg["ref_domains"] = r.choice([["std"], ["py"], ["std", "py"], []])
        if plain() < 0.2 and "substitution" in cfg["enable_extensions"]:
            cfg["sub_delimiters"] = r.choice([["|", "|"], ["[", "]"]])
        for flag in ("dmath_allow_labels", "dmath_allow_space", "dmath_allow_digits"):
            if plain() < 0.15:
                cfg[flag] = False
        if plain() < 0.2:
            cfg["dmath_double_inline"] = True
        return cfg
    cfg: dict = {}
    k = r.random()
    if k < 0.15:
        ext = []
    elif k < 0.35:
        ext = list(EXTENSIONS)
    else:
        ext = sorted(r.sample(EXTENSIONS, k=r.randint(1, len(EXTENSIONS) - 1)))
    cfg["enable_extensions"] = ext
    if r.random() < 0.5:
        cfg["heading_anchors"] = r.choice([0, 1, 2, 3, 7])
    if r.random() < 0.2:
        cfg["footnote_sort"] = False
    if r.random() < 0.2:
        cfg["footnote_transition"] = False
    if r.random() < 0.4 or "substitution" in ext:
        cfg["substitutions"] = {"key1": r.choice(["sub *one*", "sub *one*", "sub _uno_", "eins"]),
                                "key2": r.choice([2, 2, 22]), "cyc_a": "{{ cyc_b }}", "cyc_b": "{{ cyc_a }}",
                                "key_block": r.choice(["- a\n- b", "- a\n- b", "1. x"]),
                                "key_dir": "```{note}\nfrom sub\n```"}
    if r.random() < 0.15:
        cfg["html_meta"] = {"description": r.choice(["global desc", "global desc", "alt desc"]),
                            "property=og:title": "t"}
    if r.random() < (0.4 if "attrs_inline" in ext else 0.15):
        cfg["url_schemes"] = r.choice([["http", "https"], {"http": None, "wiki": "https://w/{{path}}#{{fragment}}"},
                                       {"https": {"url": "{{uri}}", "title": "T", "classes": ["c"]}},
                                       {"http": None, "https": {"classes": ["ext"]},
                                        "wiki": {"url": "https://w/{{path}}", "title": "W {{path}}",
                                                 "classes": ["wiki-link"]}},
                                       {"https": None, "wiki": {"url": "https://other.wiki/{{path}}",
                                                                "classes": ["wiki-link", "alt"]}}])
    if r.random() < 0.1:
        cfg["title_to_header"] = True
    if r.random() < 0.1:
        cfg["all_links_external"] = True
    if r.random() < 0.1:
        cfg["fence_as_directive"] = ["python"]
    if r.random() < 0.1:
        cfg["number_code_blocks"] = ["python"]
    if r.random() < 0.08:
        cfg["disable_syntax"] = [r.choice(["emphasis", "table", "list"])]
    if r.random() < 0.1:
        cfg["words_per_minute"] = 50
    if r.random() < 0.1:
        cfg["enable_checkboxes"] = True
    if r.random() < 0.04:
        cfg["commonmark_only"] = True
    if front_end == "docutils":
        if r.random() < 0.15:
            cfg["suppress_warnings"] = r.choice([["myst.header"], ["myst"], ["myst.xref_missing", "myst.iref_missing"]])
        if r.random() < 0.08:
            cfg["highlight_code_blocks"] = False
        if inventories:
            cfg["inventories"] = inventories
    return cfg


# ------------------------------------------------------------------ projects

PNG_1x1_HEX = (
    "89504e470d0a1a0a0000000d4948445200000001000000010806000000"
    "1f15c4890000000d49444154789c6360000002000001e5270de000000000"
    "49454e44ae426082"
)
DOC_POOL = ["a", "b", "c", "sub/d", "sub/e", "sub/deep/f", "other/g", "h", "sub/i", "j"]
INC_POOL = ["inc/one.inc", "inc/two.inc", "sub/three.inc", "shared.inc", "sub/deep/four.inc"]


def posix_dir(path: str) -> str:
    import posixpath

    return posixpath.dirname(path)


def relpath_from(doc: str, target: str) -> str:
    import posixpath

    return posixpath.relpath(target, posixpath.dirname(doc) or ".")


def gen_project(r, *, n_docs=None, front_end="sphinx", features=None, cfg=None, with_inventory=True,
                n_blocks=None) -> dict:
    """A multi-document project: documents in a directory tree, include files with a non-source
    suffix, link targets, an inventory file, conf.py and an index with a toctree."""
    from . import inventory as gi

    n = n_docs if n_docs is not None else r.randint(2, 6)
    docs = r.sample(DOC_POOL, k=n)
    incs = r.sample(INC_POOL, k=r.randint(1, 3))
    cfg = cfg if cfg is not None else gen_config(r, front_end)
    files: dict = {"conf.py": CONF_PY, "img.png": {"hex": PNG_1x1_HEX}, "files/data.txt": "data\n",
                   "sub/pic.png": {"hex": PNG_1x1_HEX}}  # §5.6: project-unique image basenames
    inv_keys = []
    if with_inventory:
        spec = gi.gen_spec(r, max_objects=12)
        spec.update(version=2, project="invproj", pversion="1.0")
        # make sure a few well-known names exist so that inv: links hit, miss and are ambiguous
        spec["lines"] += ["index std:label -1 index.html#$ Index Page", "foo py:function 1 api.html#$ -",
                          "foo py:class 1 api.html#foo-class -", "Class py:class 1 api.html#$ -",
                          "module1 py:module 0 mods.html#module-$ -", "genindex std:label -1 genindex.html -"]
        files["objects.inv"] = {"hex": gi.serialise(spec)[0].hex()}
        inv_keys = ["key"]
    labels: list[str] = []
    link_files = ["files/data.txt", "img.png"]
    house = house_front_matter(r, cfg.get("enable_extensions", ())) if r.random() < 0.5 else None
    for d in docs:
        c = Ctx(d, [x for x in docs if x != d] + ["index"], [relpath_from(d, i) for i in incs], labels,
                cfg.get("enable_extensions", ()), front_end, inv_keys, features,
                [relpath_from(d, f) for f in link_files])
        c.house_front_matter = house
        files[d + ".md"] = gen_doc(r, c, n_blocks=n_blocks)
        if house is not None and "enable_extensions" in house and files[d + ".md"].startswith(house):
            # content that needs the file-level extension
            files[d + ".md"] = files[d + ".md"].rstrip("\n") + "\n\nInline $a^2$ math.\n\n$$\nb = 3\n$$\n\nTerm\n: Def\n"
    for i in incs:
        c = Ctx(i.rsplit(".", 1)[0], docs, [relpath_from(i, j) for j in incs if j != i] if r.random() < 0.3 else [],
                labels, cfg.get("enable_extensions", ()), front_end, inv_keys, features,
                [relpath_from(i, f) for f in link_files])
        files[i] = gen_include_file(r, c)
    toc = "\n".join(docs)
    files["index.md"] = f"# Index\n\n```{{toctree}}\n:maxdepth: 2\n\n{toc}\n```\n\n" + para(
        r, Ctx("index", docs, [], labels, cfg.get("enable_extensions", ()), front_end, inv_keys, features, link_files)) + "\n"
    return {"files": files, "docs": docs, "includes": incs, "cfg": cfg, "inv_keys": inv_keys}


CONF_PY = "extensions = ['myst_parser']\nproject = 'simproj'\nexclude_patterns = ['_build']\n"
