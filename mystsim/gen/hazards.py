"""Static file-system / network conditions for C01 workloads (DESIGN §3.4), created *for real* in the
scratch project: the interposer is not involved.  Each hazard edits the project's file mapping and
appends the construct that reaches it to one of the documents.

Everything returned is plain JSON-able data.
"""

from __future__ import annotations

from . import docs as gd
from . import inventory as gi

LONG = "n" * 300  # > NAME_MAX (255)

URL_LOCAL = "https://inv.example/"
URL_REMOTE = "https://remote.example/docs"
URL_GONE = "https://gone.example/"


def _append(files: dict, doc: str, block: str) -> None:
    files[doc] = files[doc].rstrip("\n") + "\n\n" + block + "\n"


def _inc(target: str, opts: dict | None = None, colon=False) -> str:
    tick = ":::" if colon else "```"
    o = "".join(f":{k}: {v}\n" for k, v in (opts or {}).items())
    return f"{tick}{{include}} {target}\n{o}{tick}"


HAZARDS = [
    "missing_include", "dir_include", "undecodable_include", "nul_bytes_include", "empty_include", "self_include",
    "self_include",
    "cycle2", "cycle3", "deep_chain", "long_name_include", "bad_encoding", "nested_in_directive", "include_twice",
    "long_link", "dir_link", "odd_links", "literal_include_binary", "include_md_doc", "discarded_body",
    "discarded_body", "discarded_body", "long_line", "outside_srcdir_include", "relative_docs_include", "relative_docs_include",
    "bad_urls", "comment_transition",
]
INV_HAZARDS = ["inv_missing", "inv_dir", "inv_bad_header", "inv_not_compressed", "inv_corrupt_zlib", "inv_bad_utf8",
               "inv_garbage_body", "inv_garbage_body",
               "inv_truncated", "inv_empty", "inv_ok", "inv_ok", "inv_ok"]


def apply(r, proj: dict, front_end: str, n: int) -> list[str]:
    """Apply ``n`` random hazards to the project; returns their names."""
    files = proj["files"]
    docs = [d + ".md" for d in proj["docs"]]
    applied = []
    for _ in range(n):
        h = r.choice(HAZARDS)
        doc = r.choice(docs)
        ddir = doc.rsplit("/", 1)[0] + "/" if "/" in doc else ""
        rel = lambda target, doc=doc: gd.relpath_from(doc[:-3], target)  # noqa: E731
        applied.append(h)
        if h == "missing_include":
            _append(files, doc, _inc(r.choice(["nothere.inc", "inc/absent.inc", "../outside.inc", "/abs-missing.inc"]),
                                     r.choice([None, {"literal": ""}, {"heading-offset": "1"}])))
        elif h == "dir_include":
            files["inc/adir.inc"] = {"dir": True}
            _append(files, doc, _inc(rel("inc/adir.inc")))
        elif h == "undecodable_include":
            files["inc/bin.inc"] = {"hex": "fffe00d8410a2320c3280a80"}
            _append(files, doc, _inc(rel("inc/bin.inc"), r.choice([None, {"encoding": "utf-8"}, {"encoding": "ascii"},
                                                                   {"literal": ""}])))
        elif h == "nul_bytes_include":
            files["inc/nul.inc"] = "alpha\x00beta\n\n# T\x00itle\n\n```{note}\n\x00\n```\n"
            _append(files, doc, _inc(rel("inc/nul.inc")))
        elif h == "empty_include":
            files["inc/empty.inc"] = ""
            _append(files, doc, _inc(rel("inc/empty.inc"), r.choice([None, {"start-after": "x"}, {"end-line": "0"}])))
        elif h == "self_include":
            base = doc.rsplit("/", 1)[-1]
            # ... also spelled through '.' and '..' segments (the cycle guard must compare normalised paths)
            parts = doc.split("/")
            if len(parts) == 1:  # root-level document: go through directories that exist in every project
                dotted = ["files/../" + base, "sub/../" + base, "./files/.././" + base]
            else:  # leave the document's own directory and come back
                dotted = ["../" + parts[-2] + "/" + base, "./../" + parts[-2] + "/./" + base]
            spelled = r.choice([base, "./" + base] + dotted + dotted)
            _append(files, doc, _inc(spelled, r.choice([None, {"start-line": "1"}, {"heading-offset": "1"}])))
            if r.random() < 0.4:  # the cycle is entered a second time after it was reported once
                _append(files, doc, "between\n\n" + _inc(base))
        elif h in ("cycle2", "cycle3"):
            n_c = 2 if h == "cycle2" else 3
            names = [f"inc/cyc{n_c}_{i}.inc" for i in range(n_c)]
            dotted = r.random() < 0.5
            for i, nm in enumerate(names):
                nxt = names[(i + 1) % n_c].rsplit("/", 1)[-1]
                if dotted:
                    nxt = r.choice(["./", "../inc/", "../files/../inc/"]) + nxt
                files[nm] = f"cycle member {i}\n\n" + _inc(nxt) + "\n"
            _append(files, doc, _inc(rel(names[0])))
            if r.random() < 0.4:  # the cycle is entered a second time after it was reported once
                _append(files, doc, "between\n\n" + _inc(rel(names[r.randrange(n_c)])))
        elif h == "deep_chain":
            names = [f"inc/chain{i}.inc" for i in range(4)]
            for i, nm in enumerate(names):
                body = f"chain level {i} [l](files/data.txt)\n\n"
                if i + 1 < len(names):
                    body += _inc(names[i + 1].rsplit("/", 1)[-1], {"heading-offset": "1"} if i % 2 else None) + "\n"
                else:
                    body += "## Deepest\n\n[^deepfn]\n"
                files[nm] = body
            _append(files, doc, _inc(rel(names[0])))
        elif h == "long_name_include":
            _append(files, doc, _inc(r.choice([LONG + ".inc", f"inc/{LONG}/x.inc", "x/" * 200 + "y.inc"])))
        elif h == "bad_encoding":
            tgt = rel(r.choice(proj["includes"]))
            _append(files, doc, _inc(tgt, {"encoding": r.choice(["no-such-codec", "utf-16", "idna", "rot13", "hex"])}))
        elif h == "nested_in_directive":
            tgt = rel(r.choice(proj["includes"] + ["inc/absent2.inc"]))
            _append(files, doc, "````{note}\n> " + _inc(tgt).replace("\n", "\n> ") + "\n````")
        elif h == "include_twice":
            tgt = rel(r.choice(proj["includes"]))
            _append(files, doc, _inc(tgt) + "\n\n" + _inc(tgt, {"literal": ""}))
        elif h == "long_link":
            _append(files, doc, r.choice([f"[x]({LONG}.md)", f"[x]({LONG})", f"[](sub/{LONG}/a.md#frag)",
                                          f"<project:{LONG}.md>", f"![alt]({LONG}.png)", f"[x]({'d/' * 2100}e.md)"]))
        elif h == "dir_link":
            _append(files, doc, r.choice(["[x](sub/)", "[x](.)", "[x](..)", "[x](files)", "[x](/)", "[x](inc/)"]))
        elif h == "odd_links":
            _append(files, doc, r.choice(["[x](a%00b.md)", "[x](<a b.md>)", "[x](%ZZ)", "[x](a\\\\b.md)", "[x](%FF%FE.md)", "[x](#)", "[x](?q=1)", "[x](~user/x.md)",
                                          "[x](files/data.txt/x)", "[x](img.png#frag)", "[x](conf.py)"]))
        elif h == "literal_include_binary":
            files["inc/bin2.inc"] = {"hex": "00010203fffefd"}
            _append(files, doc, _inc(rel("inc/bin2.inc"), {"literal": ""}))
        elif h == "discarded_body":
            # a directive that parses its body into a throw-away node and then rejects it (figure with a bad caption,
            # table / list-table with a non-table body, figure-md with a bad body): whatever the body registered with
            # the document - footnotes, targets, reference definitions, substitution uses - is left detached
            n = r.randint(1, 99)
            inner = (f"[^dfn{n}]: a footnote defined inside\n\ntext[^dfn{n}] [^a]\n\n" + r.choice([
                f"(discarded-target-{n})=\n## Heading inside", f"[ref-9]: https://example.com/9\n\n[x][ref-9]",
                "{{ key1 }} [](#discarded-target)", f"```{{note}}\n[^nfn{n}]: nested footnote\n```\n\nuse[^nfn{n}]",
                "$$\nx\n$$ (discarded-eq)", "plain"]))
            # (outer fences are longer than any fence inside ``inner``, so that the whole of it really is the body)
            _append(files, doc, r.choice([
                f"`````{{figure}} img.png\n\n- not a paragraph caption\n\n{inner}\n`````",
                f"`````{{figure}} img.png\n\n- not a paragraph caption\n\n{inner}\n`````",
                f"`````{{list-table}}\n\n{inner}\n`````",
                f"`````{{table}} T\n\n{inner}\n`````",
                f"`````{{figure-md}}\nno image here\n\n{inner}\n\nthird block\n`````",
                f"``````{{note}}\n`````{{list-table}} T\n\n{inner}\n`````\n``````",
            ]) + f"\n\nafter [](#discarded-target-{n})")
            # (no reference to the discarded footnote from outside the body: docutils leaves such a footnote
            # detached, and Sphinx's latex footnote transform then raises for rST sources just the same - upstream)
        elif h == "long_line":
            # docutils refuses a source with a line longer than line_length_limit (10 000) before any rendering
            n = r.choice([10_001, 10_050, 25_000])
            _append(files, doc, r.choice(["x" * n, "[^lfn]: " + "y " * (n // 2), "# " + "h" * n,
                                          "```{note}\n" + "z" * n + "\n```"]))
        elif h == "outside_srcdir_include":
            # the resolved target lies outside the project (source) directory: missing, or a directory
            _append(files, doc, _inc(r.choice(["../../../../nowhere/x.inc", "../../../..", "../" * 6 + "etc/hostname-not.inc",
                                               "/../../outside.inc", "../../../../nowhere/"]),
                                     r.choice([None, {"literal": ""}, {"relative-docs": "."}])))
        elif h == "relative_docs_include":
            # links of every spelling rendered while an include with :relative-docs: is in effect
            other = r.choice([d for d in docs if d != doc] or docs)[:-3]
            files["inc/reldocs.inc"] = (
                f"[a](/{other}.md) [b]({other}.md) <project:/{other}.md> <project:{other}.md#usage> [c](/index.md#intro) "
                f"[d](../{other}.md) <path:/files/data.txt> <path:files/data.txt> [e](docs/{other}.md) [f](./x.md) "
                f"![img](/img.png) ![img2](img.png) [g](/) [h](//double) [i](<docs/with space.md>)\n")
            _append(files, doc, _inc(rel("inc/reldocs.inc"), {"relative-docs": r.choice(["docs/", "..", "/", ".", "sub/", "docs",
                                                                                          "/docs/", "./"]),
                                                             **({"relative-images": ""} if r.random() < 0.5 else {})}))
        elif h == "bad_urls":
            _append(files, doc, r.choice(["[a](inv://[abc#x)", "[a](http://[abc)", "<http://[abc>", "[a](https://[::1)",
                                          "[a](wiki://[x)", "[a](inv:key:std:label#[)", "<inv:[#x>", "[a](http://a b/)",
                                          "[a](http://\x7f/)", "[a](http://%zz/)", "<mailto:[x>", "[a](http://[abc]:x/)"]))
        elif h == "comment_transition":
            # a thematic break preceded, inside a container, only by nodes that a transform removes before docutils
            # checks transitions (comments under strip_comments, footnotes under footnote_sort)
            _append(files, doc, r.choice(["> % a comment\n> ---\n>\n> text", "- % c\n\n  ***\n\n  after",
                                          "```{note}\n% only a comment\n\n---\n\ntext\n```",
                                          "> [^ctf]: footnote first\n>\n> ---\n>\n> text[^ctf]",
                                          "1. % c\n   % d\n\n   ___"]))
        elif h == "include_md_doc":
            other = r.choice([d for d in docs if d != doc] or docs)
            _append(files, doc, _inc(rel(other), r.choice([None, {"relative-docs": "."}, {"relative-images": ""}])))
    return applied


def inventories(r, proj: dict) -> tuple[dict, dict, list[str]]:
    """Inventory configuration for the docutils front end.

    Returns (``myst_inventories`` value with ``<ROOT>`` placeholders, URL -> bytes-hex map, hazard names)."""
    files = proj["files"]
    good = bytes.fromhex(files["objects.inv"]["hex"]) if isinstance(files.get("objects.inv"), dict) else b""
    invs: dict = {}
    urls: dict = {}
    names = []
    n = r.choice([1, 1, 2, 3])
    for i in range(n):
        key = ["key", "remote", "third"][i]
        h = r.choice(INV_HAZARDS)
        names.append(h)
        data = _inv_bytes(r, h, good)
        via_url = r.random() < 0.4
        if via_url:
            base = [URL_LOCAL, URL_REMOTE, URL_GONE][i]
            invs[key] = [base, None]
            url = base.rstrip("/") + "/objects.inv" if not base.endswith("/") else base + "objects.inv"
            if h not in ("inv_missing", "inv_dir") and data is not None:
                urls[url] = data.hex()
        else:
            rel = ["objects.inv", "other.inv", "sub/third.inv"][i]
            invs[key] = [[URL_LOCAL, URL_REMOTE, URL_GONE][i], "<ROOT>/" + rel]
            if h == "inv_missing":
                files.pop(rel, None)
            elif h == "inv_dir":
                files[rel] = {"dir": True}
            else:
                files[rel] = {"hex": data.hex()}
    return invs, urls, names


def _inv_bytes(r, h: str, good: bytes):
    if h in ("inv_ok", "inv_missing", "inv_dir"):
        return good
    if h == "inv_bad_header":
        return r.choice([b"# Not an inventory\n", b"# Sphinx inventory version 3\n# Project: x\n# Version: 1\n",
                         b"\n\n", b"# Sphinx inventory version 2\n"])
    if h == "inv_not_compressed":
        return (b"# Sphinx inventory version 2\n# Project: p\n# Version: 1\n# The remainder of this file is "
                b"compressed using zlib.\nplain text not zlib\n")
    if h == "inv_garbage_body":  # an intact v2 header followed by bytes that are not a zlib stream at all
        return (b"# Sphinx inventory version 2\n# Project: p\n# Version: 1\n# The remainder of this file is "
                b"compressed using zlib.\n" + r.choice([b"this is not zlib data\n" * 3, b"\x00\x01\x02\x03" * 8,
                                                           b"<html><body>404</body></html>\n"]))
    if h == "inv_corrupt_zlib":
        cut = max(0, len(good) - 12)
        return good[:cut] + bytes((b ^ 0x5A) for b in good[cut:])
    if h == "inv_bad_utf8":
        spec = gi.gen_spec(r, max_objects=4)
        spec.update(version=2, project="bad", pversion="1")
        spec["lines"].append("caf\udcff std:label -1 x.html#$ -")
        return gi.serialise(spec)[0]
    if h == "inv_truncated":
        return good[: r.randint(0, max(0, len(good) - 1))]
    if h == "inv_empty":
        return b""
    raise ValueError(h)


INV_LINKS = ["<inv:key#index>", "[t](inv:key:std:label#index)", "<inv:#foo>", "<inv:remote#index>", "<inv:*:py:*#foo>",
             "[](inv:third#genindex)", "<inv:nokey#index>", "<inv:key:*:*#*>", "[x](inv:#mod*)"]
