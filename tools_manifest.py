#!/venv/bin/python
"""Regenerates MANIFEST.json from one place (keeps it valid at all times)."""
import json
import os
import sys

HERE = os.path.dirname(os.path.abspath(__file__))
PY = "/venv/bin/python"

NA = {
    "C02": "pure function of (text, config): a structural equivalence of two trees; no schedule, clock, fault or history in it, so deterministic simulation has nothing to control",
    "C03": "pure well-formedness invariant of the output tree of one input; nothing in it varies with faults, order or timing",
    "C04": "line arithmetic is a pure function of the input text (the include clause reads a file, but nothing about it varies with faults or order)",
    "C05": "section nesting is a pure function of the heading-level sequence inside one document",
    "C06": "metamorphic relation between two inputs; the include clause does I/O but the property is node equality, not I/O behaviour",
    "C07": "equivalence of a pure scanner with a reference parser over strings; no nondeterminism or fault surface",
    "C08": "pure function of (directive class, first line, content)",
    "C09": "pure function of one document; resolution happens inside one transform run",
    "C10": "pure function of the heading-title sequence and config",
    "C11": "pure function of the arrangement of references/definitions in one document",
    "C12": "the URI a link resolves to is a pure function of the project; its only schedule-dependent aspect (env data surviving parallel read and merge) is exercised under C15 with cross-document links",
    "C13": "validation/normalisation/entry-point equivalence are pure; its one stateful clause (global configuration never modified by parsing) is monitored as invariant I-CFG of the C15 history simulation and reported there",
    "C14": "relation between runs with different suppress lists on the same input: pure; the catalogue clause is static",
    "C16": "pure function of a string (tokenize_html builds a fresh parser per call and feeds once; no incremental feeding, no retained state)",
    "C17": "pure function of (HTML fragment, config)",
    "C19": "matching relation and filters are pure; the only state anchored there (the 256-entry LRU regex cache) is exercised as an operation of the C15 history simulation",
    "C20": "negative universal claim over inputs x two settings; the setting is checked synchronously before any I/O, so there is no fault, order or timing in it (observing 'no file read' needs a patched open, which is input generation, not simulation)",
}

CHECKS = {
    "C18": {
        "cmd": "c18",
        "engine": "mystsim.engines.c18_stream",
        "category": "fault_enumeration",
        "text": "Seeded simulation of the byte stream under inventory.load/fetch_inventory: the simulator decides the size of every read (cut-sets: whole, fixed, random, boundary-seeking, byte-at-a-time; complete two-chunk and all-1-byte sweeps for small files; randomised _BUFSIZE), injects read errors, premature EOF and flipped bytes, and checks schedule-independence against the one-chunk result, agreement with Sphinx's own loader as reference model, losslessness of the to/from-Sphinx round trip, and that damage never corrupts well-formed entries. Sampling of an infinite input x schedule space: evidence, not proof; the small-file sweeps are complete over their stated finite space.",
        "design_ref": "DESIGN.md §6",
        "note": "Trusted: Sphinx 8.2.3 InventoryFile.loads as reference; zlib; the generator's exclusion of str.splitlines()-only separators (Sphinx itself mis-splits there). The stream contract (read never returns b'' before EOF) is assumed; stalls are not injected. O-ERR (a read error must surface as an exception) and O-TORN (a table returned for damaged bytes must be explained by a line-faithful reading of the recoverable text) are the narrowest fault-time readings of 'the load fails with an error, without corrupting other entries'.",
        "technique": "deterministic simulation with fault injection: seeded read-schedule and stream-fault search against a reference model, with replayable minimised plans",
    },
    "C15": {
        "cmd": "c15",
        "engine": "mystsim.engines.c15_history + mystsim.engines.c15_parallel",
        "category": "exploration",
        "text": "Two seeded simulators. (A) histories: operation sequences (docutils parses to doctree/HTML with fresh or long-lived reused settings, Parser, renderer and MdParserConfig objects; in-process Sphinx builds, also sharing one confoverrides mapping; the myst-docutils-*/myst-anchors/myst-inv entry points; to_html5_demo with varying options; parses aborted by docutils' halt level; operations cut short by KeyboardInterrupt at an arbitrary I/O call; mutation of returned objects; file edits; regex-cache bursts) executed in one long-lived process forked from a pristine zygote and compared, operation by operation, with the same operation executed first in a pristine process (I-EQ); long-lived configuration objects are snapshotted and re-checked after every step (I-CFG). (B) schedules: Sphinx projects built serially (reference), in shuffled read orders and under a simulated ParallelTasks whose document-to-worker partition, fork points and merge order are drawn from the seed (I-PAR), with complete sweeps of every partition for four-document projects; plus incremental rebuilds (full build, seeded edits of documents / include files / configuration with simulator-owned mtimes, then a second build of the outdated documents serially vs under a simulated schedule), where re-read documents must equal a fresh build (I-INC) and documents whose included file changed must be re-read (I-DEP). Seeded sampling of histories and schedules: evidence, not proof; the partition sweeps are complete over their stated finite space.",
        "design_ref": "DESIGN.md §5",
        "note": "Reference = the real code in a pristine process, so a change that alters fresh-state and history output alike is invisible by construction. amsmath labels come from a simulator-owned label source (uuid4, interposed beneath the repository's _random_label, which stays real code). Upstream process-global state of docutils/Sphinx (role/directive lookup caches, local roles) is kept out of the workload (DESIGN §5.6). Workers are modelled as sequential isolated forks: exact for in-memory state.",
        "technique": "deterministic simulation: seeded history and parallel-schedule search with a pristine-process reference, simulated Sphinx ParallelTasks, replayable minimised plans",
    },
    "C01": {
        "cmd": "c01",
        "engine": "mystsim.engines.c01_faults",
        "category": "fault_enumeration",
        "text": "Fault slice of C01: file-system and network fault sequences (errno on open/stat, read errors after n bytes, torn / flipped / garbage content, URL refusal, HTTP errors, timeouts, resets and truncated bodies) injected at an interposed I/O seam during real parses of generated error-laden projects (with static conditions created for real: missing / directory / undecodable / self-including / cyclic include targets, broken inventories, over-long and odd link paths) through both front ends. About a fifth of the workloads get the complete single-fault sweep (every faultable call x every applicable fault kind); the others get 3-6 sampled plans of 1-3 faults. Oracle: no exception escapes (I1), a document comes back (I2), the call terminates (I3), a delivered error fault on an include read or inventory fetch is reported (I4). The recording pass of every workload is a fault-free evaluation held to I1-I3. The input x configuration factor of C01 is only sampled by the workload generator and is not what this check claims.",
        "design_ref": "DESIGN.md §4",
        "note": "Only calls issued by myst_parser frames are faulted (include read, inventory fetch, Sphinx link probe - any new call site is picked up by the frame classification); calls made by docutils/Sphinx on MyST's behalf or by hosted rST directives are traced but never faulted. docutils halt_level is raised to 5 so that docutils' own abort-by-configuration is not mistaken for an escape. Exceptions raised inside a docutils/Sphinx writer, in the builder's per-document write/finishing steps or in Sphinx's toctree adapter (all after reading and resolving; shown to hit rST sources identically) are counted, not reported. I4 is skipped where the configuration suppresses the report (suppress_warnings, report_level). One genuine defect is recorded as a known finding rather than repaired (header-only Markdown table without tbody -> StopIteration in Sphinx's latex post-transform; the repair would change output an existing fixture pins): the check prints KNOWN-FINDING for it and exits 0.",
        "technique": "deterministic simulation with fault injection: seeded and per-workload exhaustive single-fault enumeration at an interposed open/stat/read/urlopen seam",
    },
}


def build(claimed):
    checks = []
    for pid in sorted(claimed):
        c = CHECKS[pid]
        checks.append({
            "property_id": pid,
            "quick_cmd": f"{PY} bin/check {c['cmd']} --tier quick",
            "thorough_cmd": f"{PY} bin/check {c['cmd']} --tier thorough",
            "evidence_file": f"/verif/evidence/{pid}.json",
            "replay_cmd_template": f"{PY} bin/check {c['cmd']} --replay {{path}}",
            "engine": c["engine"],
            "level_claimed": {"category": c["category"], "text": c["text"], "design_ref": c["design_ref"]},
            "level_note": c["note"],
            "technique": c["technique"],
        })
    na = dict(NA)
    for pid in CHECKS:
        if pid not in claimed:
            na[pid] = "check under construction in this round: not claimed until its engine is committed (see DESIGN.md §0 for the plan)"
    return {
        "version": 1,
        "setup_cmd": f"{PY} bin/check setup",
        "hooks": {
            "guard": "MYST_PARSER_VERIF",
            "enable": "none needed: every seam is interposed from /verif (monkeypatched open/stat/urlopen/ParallelTasks/uuid4/time inside forked run processes); the guard name is reserved and unused, /repo carries no hook",
            "baseline_off_cmd": "cd /repo && /venv/bin/python -m pytest -ra -q -p no:cacheprovider --timeout=900 --continue-on-collection-errors",
            "source_commits": [],
            "add_only": True,
        },
        "engines": [
            {"name": "c18_stream", "path": "mystsim/engines/c18_stream.py", "serves_properties": ["C18"],
             "kind_free_text": "seeded simulation of the inventory byte stream (read schedules + stream faults) with Sphinx's loader as reference model"},
            {"name": "c15_history", "path": "mystsim/engines/c15_history.py", "serves_properties": ["C15"],
             "kind_free_text": "seeded histories of parse operations in one process vs pristine-process reference"},
            {"name": "c15_parallel", "path": "mystsim/engines/c15_parallel.py", "serves_properties": ["C15"],
             "kind_free_text": "seeded schedules of Sphinx parallel reading under a simulated ParallelTasks vs the serial build"},
            {"name": "c01_faults", "path": "mystsim/engines/c01_faults.py", "serves_properties": ["C01"],
             "kind_free_text": "fault sequences at an interposed file-system/network seam during real parses"},
        ],
        "checks": checks,
        "not_applicable": [{"property_id": k, "reason": v} for k, v in sorted(na.items())],
        "notes": "Technique family: deterministic simulation with fault injection only. 17 of 20 properties are pure functions of their input and are listed under not_applicable with reasons (DESIGN.md §0). Genuine defects found and repaired are listed in known_findings.json (status fixed) with their replay files under replays/known/.",
    }


if __name__ == "__main__":
    claimed = sys.argv[1:] or ["C18"]
    doc = build(claimed)
    with open(os.path.join(HERE, "MANIFEST.json"), "w") as f:
        json.dump(doc, f, indent=1)
        f.write("\n")
    print("MANIFEST.json written; claimed:", claimed)
